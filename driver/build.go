package main

import (
	"bytes"
	"encoding/json"
	"fmt"
	"os"
	"os/exec"
	"path/filepath"
	"sort"
	"strings"
)

// overlay is the JSON handed to `go build -overlay`: paths under the repository that
// are replaced by (or, when they do not exist, created from) files in scratch or in
// /verif/harness. /repo itself is never written.
type overlay struct {
	Replace map[string]string
}

func newOverlay() *overlay { return &overlay{Replace: map[string]string{}} }

// mapDir maps every .go file of src (non-recursive) to dstDir.
func (o *overlay) mapDir(src, dstDir string) error {
	ents, err := os.ReadDir(src)
	if err != nil {
		return err
	}
	n := 0
	for _, e := range ents {
		if e.IsDir() || !strings.HasSuffix(e.Name(), ".go") {
			continue
		}
		o.Replace[filepath.Join(dstDir, e.Name())] = filepath.Join(src, e.Name())
		n++
	}
	if n == 0 {
		return fmt.Errorf("no go files in %s", src)
	}
	return nil
}

func (o *overlay) write(path string) error {
	b, err := json.MarshalIndent(o, "", " ")
	if err != nil {
		return err
	}
	return os.WriteFile(path, b, 0o644)
}

func goEnv(extra ...string) []string {
	env := []string{}
	for _, kv := range os.Environ() {
		k := kv[:strings.IndexByte(kv+"=", '=')]
		switch k {
		case "GOFLAGS", "GOPROXY", "GOSUMDB", "GOTOOLCHAIN", "PATH", "GOWORK", "GOMAXPROCS":
			continue
		}
		env = append(env, kv)
	}
	env = append(env,
		"GOFLAGS=-mod=mod", "GOPROXY=off", "GOSUMDB=off", "GOTOOLCHAIN=local", "GOWORK=off",
		"PATH="+goBinDir+":"+os.Getenv("PATH"))
	return append(env, extra...)
}

// goRun runs the go tool in dir; output is returned (and echoed when it fails).
func goRun(dir string, args ...string) ([]byte, error) {
	cmd := exec.Command(filepath.Join(goBinDir, "go"), args...)
	cmd.Dir = dir
	cmd.Env = goEnv()
	var buf bytes.Buffer
	cmd.Stdout = &buf
	cmd.Stderr = &buf
	err := cmd.Run()
	if err != nil {
		return buf.Bytes(), fmt.Errorf("go %s: %v\n%s", strings.Join(args, " "), err, tail(buf.String(), 60))
	}
	return buf.Bytes(), nil
}

func tail(s string, n int) string {
	lines := strings.Split(strings.TrimRight(s, "\n"), "\n")
	if len(lines) > n {
		lines = lines[len(lines)-n:]
	}
	return strings.Join(lines, "\n")
}

// repoHead describes the tree the check ran against (for replay files / evidence).
func repoHead(repo string) string {
	out, err := exec.Command("git", "-C", repo, "rev-parse", "--short", "HEAD").Output()
	if err != nil {
		return "unknown"
	}
	h := strings.TrimSpace(string(out))
	st, _ := exec.Command("git", "-C", repo, "status", "--porcelain").Output()
	if len(bytes.TrimSpace(st)) > 0 {
		h += "+dirty"
	}
	return h
}

func sortedKeys[M ~map[string]V, V any](m M) []string {
	ks := make([]string, 0, len(m))
	for k := range m {
		ks = append(ks, k)
	}
	sort.Strings(ks)
	return ks
}
