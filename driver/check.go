package main

import (
	"encoding/json"
	"fmt"
	"os"
	"path/filepath"
	"sort"
	"strings"
	"time"

	"verif/harness/sim"
)

// ---------------------------------------------------------------------------------
// known findings (committed file, never written at run time)

type knownFinding struct {
	Property  string `json:"property"`
	Invariant string `json:"invariant"`
	Signature string `json:"signature"`
	What      string `json:"what"`
}

type knownFile struct {
	Findings []knownFinding `json:"findings"`
	Fixed    []string       `json:"fixed"`
}

func loadKnown(cfg *config) (*knownFile, error) {
	var kf knownFile
	b, err := os.ReadFile(filepath.Join(cfg.verifDir, "known_findings.json"))
	if os.IsNotExist(err) {
		return &kf, nil
	}
	if err != nil {
		return nil, err
	}
	if err := json.Unmarshal(b, &kf); err != nil {
		return nil, err
	}
	return &kf, nil
}

func (kf *knownFile) match(prop string, v *sim.Violation) *knownFinding {
	for i := range kf.Findings {
		f := &kf.Findings[i]
		if f.Property == prop && f.Invariant == v.Invariant && f.Signature == v.Signature {
			return f
		}
	}
	return nil
}

// ---------------------------------------------------------------------------------
// replay files

type replayFile struct {
	Property  string         `json:"property"`
	Engine    string         `json:"engine"`
	Seed      uint64         `json:"seed"`
	Run       uint64         `json:"run"`
	RepoHead  string         `json:"repo_head"`
	Tape      []uint64       `json:"tape"`
	Violation *sim.Violation `json:"violation"`
	LogSHA    string         `json:"log_sha256"`
	Shrink    map[string]any `json:"minimisation"`
	Decoded   any            `json:"decoded,omitempty"`
	Log       []string       `json:"log,omitempty"`
	Crashed   bool           `json:"worker_died,omitempty"`
	Race      bool           `json:"race_build,omitempty"`
}

// ---------------------------------------------------------------------------------

type selfcheck struct {
	Tapes     int    `json:"tapes"`
	Processes int    `json:"processes_per_tape"`
	Gomaxproc []int  `json:"gomaxprocs"`
	OK        bool   `json:"identical_logs"`
	Detail    string `json:"detail,omitempty"`
}

// determinism replays the first n runs of seed in three fresh processes each, at
// GOMAXPROCS 1, 4 and 16, and demands identical event-log hashes and verdicts.
func (rc *runCtx) determinism(seed uint64, n int) *selfcheck {
	sc := &selfcheck{Tapes: n, Processes: 3, Gomaxproc: []int{1, 4, 16}, OK: true}
	tapes := make([][]uint64, n)
	for i := range tapes {
		tapes[i] = rawTape(seed, uint64(i), 1<<15)
	}
	var all [][]*evalResult
	for _, p := range sc.Gomaxproc {
		// several processes per setting so that the n tapes are spread over fresh processes
		pool := []*server{rc.newServer(p), rc.newServer(p), rc.newServer(p), rc.newServer(p)}
		all = append(all, rc.evalMany(pool, tapes, 300*time.Second))
		for _, s := range pool {
			s.stop()
		}
	}
	for i := range tapes {
		a := all[0][i]
		for k := 1; k < len(all); k++ {
			b := all[k][i]
			if a.Crashed != b.Crashed || a.Res.LogHash != b.Res.LogHash || vkey(a.Res) != vkey(b.Res) {
				sc.OK = false
				sc.Detail = fmt.Sprintf("run %d of seed %d: GOMAXPROCS=%d gave log %s verdict %q, GOMAXPROCS=%d gave log %s verdict %q",
					i, seed, sc.Gomaxproc[0], a.Res.LogHash, vkey(a.Res), sc.Gomaxproc[k], b.Res.LogHash, vkey(b.Res))
				return sc
			}
		}
	}
	return sc
}

func runSelftest(cfg *config, spec *engineSpec) int {
	rc := newRunCtx(cfg, spec)
	var err error
	rc.worker, rc.env, rc.info, err = spec.prepare(cfg)
	if err != nil {
		die2("%v", err)
	}
	sc := rc.determinism(cfg.seed, 48)
	b, _ := json.Marshal(sc)
	fmt.Println(string(b))
	if !sc.OK {
		return 2
	}
	return 0
}

func runCheck(cfg *config, spec *engineSpec) int {
	t0 := time.Now()
	rc := newRunCtx(cfg, spec)
	known, err := loadKnown(cfg)
	if err != nil {
		die2("known_findings.json: %v", err)
	}
	var perr error
	rc.worker, rc.env, rc.info, perr = spec.prepare(cfg)
	if perr != nil {
		die2("cannot build simulator for %s: %v", spec.name, perr)
	}
	if w, ok := rc.info["alt_worker"].([]string); ok {
		rc.altWorker = w
	}
	buildS := time.Since(t0).Seconds()
	fmt.Printf("[%s] built instrumented worker from %s (%s) in %.1fs\n", spec.name, cfg.repo, repoHead(cfg.repo), buildS)

	if spec.pre != nil {
		if err := spec.pre(cfg, rc); err != nil {
			die2("%v", err)
		}
	}

	// determinism self-check on a sample (full self-test: `driver selftest`)
	nSelf := 8
	if cfg.tier == "thorough" {
		nSelf = 32
	}
	sc := rc.determinism(cfg.seed, nSelf)
	if !sc.OK {
		// The same tape gave different executions: the code under test has concurrency (or
		// another source of nondeterminism) the simulator does not own. The search still
		// runs — a violation that a replay confirms is a violation — but a batch that finds
		// nothing will not be vouched for (exit 2).
		fmt.Printf("[%s] determinism self-check FAILED: %s\n", spec.name, sc.Detail)
	} else {
		fmt.Printf("[%s] determinism self-check: %d tapes x 3 processes (GOMAXPROCS 1/4/16) identical\n", spec.name, nSelf)
	}

	budget := cfg.budget
	if budget == 0 {
		budget = spec.quickBudget
		if cfg.tier == "thorough" {
			budget = spec.thoroughBudget
		}
	}
	searchStart := time.Now()
	deadline := searchStart.Add(budget)
	if cfg.tier == "thorough" {
		// several seeds, each a slice of the budget
		slices := 4
		for i := 0; i < slices; i++ {
			d := searchStart.Add(budget * time.Duration(i+1) / time.Duration(slices))
			// the last slice runs on the -race build when the engine provides one
			rc.useAlt = i == slices-1 && rc.altWorker != nil
			if rc.useAlt {
				fmt.Printf("[%s] slice %d runs on the -race build (auxiliary crash oracle)\n", spec.name, i+1)
			}
			rc.search(cfg.seed+uint64(i)*1000003, d, 0)
			rc.useAlt = false
			if len(rc.failures) >= 200 {
				break
			}
		}
	} else {
		// VERIF_RACE_ONLY=1: run the whole quick batch on the -race build; otherwise the
		// last fifth of the budget does (when the engine provides such a build)
		if os.Getenv("VERIF_RACE_ONLY") == "1" && rc.altWorker != nil {
			rc.useAlt = true
			rc.search(cfg.seed, deadline, 0)
			rc.useAlt = false
		} else if rc.altWorker != nil {
			rc.search(cfg.seed, searchStart.Add(budget*4/5), 0)
			fmt.Printf("[%s] last fifth of the budget runs on the -race build (auxiliary crash oracle)\n", spec.name)
			rc.useAlt = true
			rc.search(cfg.seed+500009, deadline, 0)
			rc.useAlt = false
		} else {
			rc.search(cfg.seed, deadline, 0)
		}
	}
	searchS := time.Since(searchStart).Seconds()
	fmt.Printf("[%s] %d simulated runs in %.1fs (%d non-trivial, %d distinct interleavings, %d distinct states), %d failing, %d worker deaths\n",
		spec.name, rc.runs, searchS, rc.nontriv, len(rc.scheds), len(rc.states), len(rc.failures), rc.crashes)

	// group failures, minimise one representative per class
	groups := map[string][]*failure{}
	for _, f := range rc.failures {
		groups[f.key()] = append(groups[f.key()], f)
	}
	keys := sortedKeys(groups)
	var unknown, knownHit, unconfirmed, slow []string
	violations := 0
	var replayPaths []string
	for gi, k := range keys {
		fs := groups[k]
		sort.Slice(fs, func(i, j int) bool {
			li, lj := len(fs[i].Res.Tape), len(fs[j].Res.Tape)
			if fs[i].Crash != fs[j].Crash {
				return !fs[i].Crash
			}
			if li != lj {
				return li < lj
			}
			return fs[i].Run < fs[j].Run
		})
		// The representative is the smallest failure of the class; if the code under test is
		// schedule-dependent a particular failure may not show again on replay, so the next
		// ones of the class are tried before the class is declared unconfirmed.
		var f *failure
		var rf *replayFile
		rc.replaysAllClean = true
		for try := 0; try < len(fs) && try < 8 && rf == nil; try++ {
			f = fs[try]
			rc.useAlt = f.Alt
			rf = rc.minimise(f, gi < 6)
			rc.useAlt = false
		}
		if rf == nil && spec.sequentialSUT && rc.replaysAllClean && strings.HasSuffix(strings.SplitN(k, "|", 2)[0], ".hang") {
			// every replay of every such run completed without a violation, and the code under
			// test is sequential: the runs were slow under machine load, not stuck
			slow = append(slow, fmt.Sprintf("%d runs outlived the %v watchdog in the search; %d were replayed in fresh processes (4 times each) and completed without a violation", len(fs), spec.dog(), min(len(fs), 8)))
			continue
		}
		if rf == nil {
			unconfirmed = append(unconfirmed, fmt.Sprintf("%s (%d runs failed in the search, none of the %d tried reproduced on replay)", k, len(fs), min(len(fs), 8)))
			continue
		}
		name := fmt.Sprintf("%s-%s-s%d-r%d.json", spec.property, sanitize(rf.Violation.Invariant+"-"+rf.Violation.Signature), f.Seed, f.Run)
		path := filepath.Join(cfg.outDir, "replays", name)
		if err := writeJSON(path, rf); err != nil {
			die2("write replay: %v", err)
		}
		if kf := known.match(spec.property, rf.Violation); kf != nil {
			knownHit = append(knownHit, fmt.Sprintf("KNOWN-FINDING: property=%s %s [%s; %d runs; replay=%s]", spec.property, kf.What, rf.Violation.Signature, len(fs), path))
			continue
		}
		violations += len(fs)
		unknown = append(unknown, fmt.Sprintf("VIOLATION property=%s replay=%s", spec.property, path))
		replayPaths = append(replayPaths, path)
		fmt.Printf("[%s] %s (%d runs)\n    %s\n", spec.name, k, len(fs), strings.ReplaceAll(rf.Violation.Detail, "\n", "\n    "))
	}

	if len(slow) > 0 {
		rc.info["slow_runs_reclassified"] = slow
		fmt.Printf("[%s] note: %s\n", spec.name, strings.Join(slow, "; "))
	}
	ev := rc.evidence(t0, searchS, sc, violations, knownHit)
	if err := writeJSON(filepath.Join(cfg.outDir, "evidence", spec.property+".json"), ev); err != nil {
		die2("write evidence: %v", err)
	}
	for _, l := range knownHit {
		fmt.Println(l)
	}
	// every known finding is announced on the unchanged tree even when this batch
	// did not happen to hit it: the file, not the sample, is the record.
	for _, kf := range known.Findings {
		if kf.Property != spec.property {
			continue
		}
		hit := false
		for _, l := range knownHit {
			if strings.Contains(l, kf.Signature) {
				hit = true
			}
		}
		if !hit {
			fmt.Printf("KNOWN-FINDING: property=%s %s [%s; not reached by this batch]\n", spec.property, kf.What, kf.Signature)
		}
	}
	for _, l := range unknown {
		fmt.Println(l)
	}
	if len(unknown) > 0 {
		return 1
	}
	if rc.runs == 0 {
		die2("no simulated run completed")
	}
	if len(unconfirmed) > 0 {
		// failures seen in the search that no replay confirmed: the simulator is not
		// deterministic on this tree; it will not vouch for it
		die2("failures that did not reproduce on replay: %v", unconfirmed)
	}
	if !sc.OK {
		die2("determinism self-check failed and no violation was found: %s", sc.Detail)
	}
	// sources of nondeterminism the simulator does not own, or an instrumented build that
	// disagrees with the plain one: the machinery will not vouch for this tree.
	if d, ok := rc.info["natural_order_disagree"].([]string); ok && len(d) > 0 {
		die2("instrumentation fidelity: the un-instrumented natural-order generation of %v differs from the instrumented all-ascending reference while all simulated executions agree among themselves", d)
	}
	if u, ok := rc.info["cannot_vouch"].([]string); ok && len(u) > 0 {
		die2("the compile/generate path now contains sources of nondeterminism the simulator does not own: %v", u)
	}
	fmt.Printf("[%s] property %s held on all %d runs (wall %.0fs)\n", spec.name, spec.property, rc.runs, time.Since(t0).Seconds())
	return 0
}

func sanitize(s string) string {
	var b strings.Builder
	for _, c := range s {
		switch {
		case c >= 'a' && c <= 'z', c >= 'A' && c <= 'Z', c >= '0' && c <= '9', c == '.', c == '-':
			b.WriteRune(c)
		default:
			b.WriteByte('_')
		}
		if b.Len() > 70 {
			break
		}
	}
	return b.String()
}

// minimise confirms a failure by replaying it in a fresh process, shrinks it and returns
// the replay file (nil when the failure does not reproduce).
func (rc *runCtx) minimise(f *failure, shrink bool) *replayFile {
	par := rc.cfg.workers
	pool := make([]*server, par)
	for i := range pool {
		pool[i] = rc.newServer(4)
	}
	defer func() {
		for _, s := range pool {
			s.stop()
		}
	}()
	tape := f.Res.Tape
	if tape == nil {
		tape = rawTape(f.Seed, f.Run, 1<<15)
	}
	timeout := 150 * time.Second
	if d := rc.spec.dog() + 60*time.Second; d > timeout {
		timeout = d
	}
	// Replay in a fresh process. A simulated run is a pure function of its tape unless the
	// code under test has concurrency the simulator does not own (e.g. a change that makes
	// handlers race inside one step): then a replay may show another violation, or none.
	// Any violation that a replay shows is a reproduced violation; it is reported with a
	// note, and only a failure that no replay confirms makes the check undecided.
	var first *evalResult
	want := f.key()
	stable := false
	var seenKeys []string
	for try := 0; try < 4; try++ {
		r := pool[try%len(pool)].eval(tape, false, timeout)
		k := vkey(r.Res)
		seenKeys = append(seenKeys, k)
		if k != "" || r.Crashed {
			rc.replaysAllClean = false
		}
		if k == want || f.Crash && r.Crashed {
			first, stable = r, try == 0
			want = k
			break
		}
		if k != "" && first == nil {
			first = r
		}
	}
	if first == nil {
		fmt.Fprintf(os.Stderr, "replays of run %d gave %q, search gave %q\n", f.Run, seenKeys, f.key())
		return nil
	}
	if vkey(first.Res) != want {
		want = vkey(first.Res)
	}
	sh := &shrinker{rc: rc, pool: pool, want: want, best: tape, bestRes: first.Res,
		maxTries: 1200, deadline: time.Now().Add(150 * time.Second), timeout: 120 * time.Second}
	if !first.Crashed && first.Res.Tape != nil {
		sh.best = trimTape(first.Res.Tape)
	}
	before := len(sh.best)
	unshrunk := sh.best
	if shrink && stable && !strings.HasSuffix(strings.SplitN(want, "|", 2)[0], ".hang") {
		sh.run() // (a hang costs a full watchdog period per attempt: not minimised)
	}
	// final replay with the full log, in a fresh process
	var final *evalResult
	for try := 0; try < 5; try++ {
		fresh := rc.newServer(1)
		final = fresh.eval(sh.best, true, timeout)
		fresh.stop()
		if vkey(final.Res) == sh.want {
			break
		}
		if try == 2 {
			sh.best = unshrunk // the minimised tape is not stable: fall back
		}
		stable = false
	}
	if vkey(final.Res) == "" {
		fmt.Fprintf(os.Stderr, "final replay gave no violation, wanted %q\n", sh.want)
		return nil
	}
	rf := &replayFile{Property: rc.spec.property, Engine: rc.spec.name, Seed: f.Seed, Run: f.Run, RepoHead: repoHead(rc.cfg.repo),
		Tape: sh.best, Violation: final.Res.Violation, LogSHA: final.Res.LogHash, Decoded: final.Res.Decoded, Log: final.Res.LogLines,
		Crashed: final.Crashed, Race: f.Alt,
		Shrink:  map[string]any{"tape_len_before": before, "tape_len_after": len(sh.best), "attempts": sh.attempts}}
	if !stable {
		rf.Shrink["unstable"] = fmt.Sprintf("replays of this tape do not all agree (search: %s; replays: %v): the code under test has concurrency inside one simulated step, which the simulator does not own; the violation recorded here is the one the last replay showed", f.key(), seenKeys)
	}
	return rf
}

func runReplay(cfg *config, path string) int {
	b, err := os.ReadFile(path)
	if err != nil {
		die2("%v", err)
	}
	var rf replayFile
	if err := json.Unmarshal(b, &rf); err != nil {
		die2("%s: %v", path, err)
	}
	spec := engines[rf.Engine]
	if spec == nil {
		die2("replay file names unknown engine %q", rf.Engine)
	}
	rc := newRunCtx(cfg, spec)
	cfg.race = cfg.race || rf.Race
	rc.worker, rc.env, rc.info, err = spec.prepare(cfg)
	if err != nil {
		die2("cannot build simulator for %s: %v", spec.name, err)
	}
	if w, ok := rc.info["alt_worker"].([]string); ok && rf.Race {
		rc.altWorker, rc.useAlt = w, true
	}
	s := rc.newServer(1)
	r := s.eval(rf.Tape, true, 600*time.Second)
	s.stop()
	for _, l := range r.Res.LogLines {
		fmt.Println("  | " + l)
	}
	if r.Res.Violation == nil {
		fmt.Printf("NOT-REPRODUCED property=%s: the run passes on this tree (log %s)\n", rf.Property, r.Res.LogHash)
		return 0
	}
	fmt.Printf("%s: %s\n%s\n", r.Res.Violation.Invariant, r.Res.Violation.Signature, r.Res.Violation.Detail)
	same := vkey(r.Res) == rf.Violation.Invariant+"|"+rf.Violation.Signature
	if same && !r.Crashed && r.Res.LogHash != rf.LogSHA {
		fmt.Printf("note: same violation, event log differs from the recorded one (%s vs %s): the tree changed since the file was written\n", r.Res.LogHash, rf.LogSHA)
	}
	if same && (r.Crashed || r.Res.LogHash == rf.LogSHA) {
		fmt.Println("reproduced exactly (same violation, same event-log hash)")
	}
	fmt.Printf("VIOLATION property=%s replay=%s\n", rf.Property, path)
	return 1
}

// ---------------------------------------------------------------------------------
// evidence

func (rc *runCtx) evidence(t0 time.Time, searchS float64, sc *selfcheck, violations int, known []string) map[string]any {
	spec := rc.spec
	zero := []string{}
	for _, p := range spec.probes {
		if rc.probes[p] == 0 && rc.faults[p] == 0 {
			zero = append(zero, p)
		}
	}
	perHour := 0.0
	if searchS > 0 {
		perHour = float64(rc.runs) / searchS * 3600
	}
	samples := rc.samples
	if len(samples) == 0 {
		samples = []any{"no sample captured"}
	}
	cov := map[string]any{
		"evaluations":            rc.runs,
		"distinct_nontrivial":    len(rc.scheds),
		"rule":                   spec.rule,
		"samples":                samples,
		"nontrivial_runs":        rc.nontriv,
		"runs_per_hour":          int64(perHour),
		"seeds":                  rc.seeds,
		"simulated_steps":        rc.steps,
		"faults_fired":           rc.faults,
		"runs_with_faults":       rc.faultRun,
		"runs_without_faults":    rc.runs - rc.faultRun,
		"probes":                 rc.probes,
		"probes_never_hit":       zero,
		"distinct_interleavings": len(rc.scheds),
		"distinct_states":        len(rc.states),
		"skipped":                rc.skipped,
		"real_vs_stub":           spec.realVsStub,
		"determinism_selfcheck":  sc,
		"worker_deaths":          rc.crashes,
		"known_findings_hit":     known,
		"workers":                rc.cfg.workers,
		"repo_head":              repoHead(rc.cfg.repo),
		"search_wall_s":          searchS,
	}
	for k, v := range rc.info {
		cov[k] = v
	}
	return map[string]any{
		"property_id": spec.property,
		"tier":        rc.cfg.tier,
		"seed":        int64(rc.cfg.seed & 0x7fffffffffffffff),
		"level":       "exploration",
		"coverage":    cov,
		"assumptions": spec.assumptions,
		"wall_s":      time.Since(t0).Seconds(),
		"violations":  violations,
	}
}
