package main

import (
	"fmt"
	"os"
	"path/filepath"
	"sort"
	"strings"

	"verif/harness/sim"
)

// A detBlock is a self-contained group of rules that starts with its own keyword token,
// so that any subset of blocks composes into a conflict-free grammar. Blocks live in
// harness/detsim/blocks/*.blk; each is aimed at a grammar *shape* that reaches code the
// shipped grammars do not (lalr(k) tries, default-reduction ties, shared mid-rule actions,
// opt-suffix aliases, templates, lookahead chains, token sets, typed AST, ...).
type detBlock struct {
	name   string
	parser string // "" or "lalr(N)"
	lang   string // "" (any target) or "go"
	events string // "", "true", "false"
	needs  map[string]bool
	wants  []string // options this block needs switched on to reach the code it is aimed at
	lexer  string
	decls  string
	rules  string
}

func loadDetBlocks(dir string) ([]*detBlock, error) {
	files, _ := filepath.Glob(filepath.Join(dir, "*.blk"))
	sort.Strings(files)
	var out []*detBlock
	for _, f := range files {
		b, err := os.ReadFile(f)
		if err != nil {
			return nil, err
		}
		blk := &detBlock{name: strings.TrimSuffix(filepath.Base(f), ".blk"), needs: map[string]bool{}}
		section := "head"
		for _, line := range strings.Split(string(b), "\n") {
			if strings.HasPrefix(line, "%% ") {
				section = strings.TrimSpace(line[3:])
				continue
			}
			switch section {
			case "head":
				k, v, ok := strings.Cut(line, ":")
				if !ok || strings.HasPrefix(line, "#") {
					continue
				}
				v = strings.TrimSpace(v)
				switch strings.TrimSpace(k) {
				case "parser":
					blk.parser = v
				case "lang":
					blk.lang = v
				case "events":
					blk.events = v
				case "needs":
					for _, n := range strings.Fields(v) {
						blk.needs[n] = true
					}
				case "wants":
					blk.wants = append(blk.wants, strings.Fields(v)...)
				}
			case "lexer":
				blk.lexer += line + "\n"
			case "decls":
				blk.decls += line + "\n"
			case "rules":
				blk.rules += line + "\n"
			}
		}
		if strings.TrimSpace(blk.rules) == "" {
			return nil, fmt.Errorf("%s: no rules", f)
		}
		out = append(out, blk)
	}
	if len(out) == 0 {
		return nil, fmt.Errorf("no grammar blocks in %s", dir)
	}
	return out, nil
}

const detLexerPrelude = `ws: /[ \t\r\n]+/ (space)
comment: /#[^\n]*/ (space)
id: /[a-zA-Z_][a-zA-Z_0-9]*/ (class)
num: /[0-9]+/
'+': /\+/
'-': /-/
'*': /\*/
'/': /\//
'(': /\(/
')': /\)/
'[': /\[/
']': /\]/
'{': /\{/
'}': /\}/
',': /,/
';': /;/
':': /:/
'=': /=/
'<': /</
'>': />/
'.': /\./
`

// composeDetGrammar builds one grammar from the chosen blocks and options.
func composeDetGrammar(name string, blocks []*detBlock, src *sim.Src) (text, desc string) {
	lang := "go"
	goOnly, wantEvents, wantNoEvents, needErr, noBison, needUnicode := false, false, false, false, false, false
	parserK := 1
	for _, b := range blocks {
		if b.lang == "go" || b.parser != "" {
			goOnly = true // semantic actions are Go code; LALR(k) is supported for Go only
		}
		switch b.events {
		case "true":
			wantEvents = true
		case "false":
			wantNoEvents = true
		}
		if b.needs["error"] {
			needErr = true
		}
		if b.needs["unicode"] {
			needUnicode = true // patterns beyond \xff: not compatible with scanBytes
		}
		if b.needs["nobison"] {
			noBison = true // the Bison exporter cannot print lookaheads / state markers
		}
		var k int
		if _, err := fmt.Sscanf(b.parser, "lalr(%d)", &k); err == nil && k > parserK {
			parserK = k
		}
	}
	if !goOnly {
		lang = []string{"go", "go", "go", "ts", "cc"}[src.Draw(5)]
	}
	events := src.Chance(7, 10)
	if wantEvents {
		events = true
	}
	if wantNoEvents && !wantEvents {
		events = false
	}
	if lang != "go" {
		events = true
	}
	want := map[string]bool{}
	if len(blocks) > 0 {
		for _, w := range blocks[0].wants {
			want[w] = true
		}
	}
	var opts, on []string
	set := func(k string, v any) {
		opts = append(opts, fmt.Sprintf("%s = %v", k, v))
		if v != false {
			on = append(on, k)
		}
	}
	opts = append(opts, fmt.Sprintf("lang = %q", name))
	if lang == "go" {
		opts = append(opts, fmt.Sprintf("package = \"example.com/zz/%s\"", name))
	}
	set("eventBased", events)
	if lang == "go" {
		if events && (src.Chance(1, 2) || want["eventFields"] || want["eventAST"]) {
			set("eventFields", true)
			if src.Chance(1, 2) || want["eventAST"] {
				set("eventAST", true)
			}
		}
		// (the table optimiser of the tree at hand dies on lalr(k>=2) tables: C17 territory)
		if (src.Chance(1, 2) || want["optimizeTables"] || want["defaultReduce"]) && parserK == 1 {
			set("optimizeTables", true)
			if src.Chance(1, 2) || want["defaultReduce"] {
				set("defaultReduce", true)
			}
		}
		if src.Chance(1, 2) {
			set("tokenLine", src.Chance(1, 2))
		}
		if events && src.Chance(1, 3) {
			set("fixWhitespace", true)
		}
		if src.Chance(1, 2) {
			set("cancellable", true)
		}
		set("recursiveLookaheads", true)
		if src.Chance(1, 3) || want["nodePrefix"] {
			set("nodePrefix", `"Nd"`)
		}
		if src.Chance(1, 4) || want["debugParser"] {
			set("debugParser", true)
		}
		if src.Chance(1, 4) && !noBison {
			set("writeBison", true)
		}
		if events && src.Chance(1, 4) {
			set("tokenStream", true)
		}
	}
	if src.Chance(1, 4) && !needUnicode {
		set("scanBytes", true)
	}
	set("aliasIncludesOptSuffix", false)
	set("optInstantiationSuffix", `"opt"`)

	var sb strings.Builder
	fmt.Fprintf(&sb, "# composed by /verif/driver/detcompose.go from blocks:")
	for _, b := range blocks {
		sb.WriteString(" " + b.name)
	}
	fmt.Fprintf(&sb, "\nlanguage %s(%s);\n\n%s\n\n:: lexer\n\n", name, lang, strings.Join(opts, "\n"))
	if needErr {
		sb.WriteString("invalid_token:\nerror:\n")
	}
	sb.WriteString(detLexerPrelude)
	for i, b := range blocks {
		fmt.Fprintf(&sb, "'k%02d': /k%02d/\n", i+1, i+1)
		sb.WriteString(strings.ReplaceAll(b.lexer, "KW", fmt.Sprintf("k%02d", i+1)))
	}
	if parserK > 1 {
		fmt.Fprintf(&sb, "\n:: parser lalr(%d)\n\n%%input input;\n\n", parserK)
	} else {
		sb.WriteString("\n:: parser\n\n%input input;\n\n")
	}
	for i, b := range blocks {
		sb.WriteString(strings.ReplaceAll(b.decls, "KW", fmt.Sprintf("k%02d", i+1)))
	}
	arrow := func(s string) string {
		if events {
			return " -> " + s
		}
		return ""
	}
	fmt.Fprintf(&sb, "\ninput%s: item+ ;\n\nitem%s:\n", arrow("Input"), arrow("Item"))
	for i := range blocks {
		sep := "  |"
		if i == 0 {
			sep = "   "
		}
		fmt.Fprintf(&sb, "%s blk%02d\n", sep, i+1)
	}
	sb.WriteString(";\n\n")
	for i, b := range blocks {
		r := strings.ReplaceAll(b.rules, "KW", fmt.Sprintf("k%02d", i+1))
		r = strings.Replace(r, "@", fmt.Sprintf("blk%02d", i+1), 1)
		if !events {
			r = stripArrows(r)
		}
		fmt.Fprintf(&sb, "# block %s\n%s\n", b.name, r)
	}
	var names []string
	for _, b := range blocks {
		names = append(names, b.name)
	}
	return sb.String(), fmt.Sprintf("%s/%s[%s | %s]", lang, name, strings.Join(names, "+"), strings.Join(on, ","))
}

// stripArrows removes `-> Name` reporting clauses (only meaningful with eventBased = true).
func stripArrows(rules string) string {
	var out []string
	for _, line := range strings.Split(rules, "\n") {
		for {
			i := strings.Index(line, "->")
			if i < 0 {
				break
			}
			j := i + 2
			for j < len(line) && line[j] == ' ' {
				j++
			}
			for j < len(line) && (line[j] == '_' || line[j] == '/' || line[j] >= 'a' && line[j] <= 'z' || line[j] >= 'A' && line[j] <= 'Z' || line[j] >= '0' && line[j] <= '9') {
				j++
			}
			line = line[:i] + line[j:]
		}
		out = append(out, line)
	}
	return strings.Join(out, "\n")
}

// wideGrammar is a synthetic "wide and tall" grammar: nWords nonterminals recognising
// distinct 12-bit words over two terminals. With 2600 words it compiles into ~7800 states,
// i.e. more than 2^24 goto cells — beyond the largest shipped grammar (js: 8.7M) — in a
// fraction of a second.
func wideGrammar(name string, nWords int) string {
	var sb strings.Builder
	fmt.Fprintf(&sb, "# synthetic wide grammar (%d nonterminals over 12-bit words)\nlanguage %s(go);\n\nlang = %q\npackage = \"example.com/zz/%s\"\noptimizeTables = true\n\n:: lexer\n\nspace: /[\\t\\r\\n ]+/ (space)\n'0': /0/\n'1': /1/\n\n:: parser\n\ninput:\n    item+ ;\n\nitem:\n", nWords, name, name, name)
	for i := 0; i < nWords; i++ {
		sep := "  |"
		if i == 0 {
			sep = "   "
		}
		fmt.Fprintf(&sb, "%s w%d\n", sep, i)
	}
	sb.WriteString(";\n\n")
	for i := 0; i < nWords; i++ {
		fmt.Fprintf(&sb, "w%d:", i)
		for b := 11; b >= 0; b-- {
			fmt.Fprintf(&sb, " '%d'", (i>>uint(b))&1)
		}
		sb.WriteString(" ;\n")
	}
	return sb.String()
}

// composeDetPool writes n composed grammars into scratch and returns them as pool entries.
func composeDetPool(cfg *config, n int) ([]detPool, map[string]string, error) {
	blocks, err := loadDetBlocks(filepath.Join(cfg.verifDir, "harness", "detsim", "blocks"))
	if err != nil {
		return nil, nil, err
	}
	dir := filepath.Join(cfg.scratch, "composed")
	if err := os.MkdirAll(dir, 0o755); err != nil {
		return nil, nil, err
	}
	src := sim.NewSearch(cfg.seed, 0x636f6d70)
	var pool []detPool
	descs := map[string]string{}
	for i := 0; i < n; i++ {
		name := fmt.Sprintf("c%02d", i+1)
		var chosen []*detBlock
		if i == n-1 {
			// one big grammar made of every block: more than 64 terminals, a few hundred
			// states — sizes at which bit sets spill into further words and table element
			// types widen
			chosen = append(chosen, blocks...)
			text, desc := composeDetGrammar(name, chosen, src)
			p := filepath.Join(dir, name+".tm")
			if err := os.WriteFile(p, []byte(text), 0o644); err != nil {
				return nil, nil, err
			}
			pool = append(pool, detPool{ID: "composed/" + name, Path: p})
			descs["composed/"+name] = desc
			continue
		}
		if i < len(blocks) {
			// every block appears at least once, first alone-ish then mixed
			chosen = append(chosen, blocks[i])
		}
		k := 2 + src.Draw(5)
		perm := make([]int, len(blocks))
		for j := range perm {
			perm[j] = j
		}
		for j := len(perm) - 1; j > 0; j-- {
			r := src.Draw(j + 1)
			perm[j], perm[r] = perm[r], perm[j]
		}
		for _, j := range perm {
			if len(chosen) >= k {
				break
			}
			dup := false
			for _, c := range chosen {
				if c == blocks[j] {
					dup = true
				}
			}
			// a composition dedicated to a block that wants the table optimiser cannot take
			// lalr(k) blocks (the optimiser is switched off for them, see above)
			if i < len(blocks) && blocks[j].parser != "" {
				for _, w := range chosen[0].wants {
					if w == "optimizeTables" || w == "defaultReduce" {
						dup = true
					}
				}
			}
			if !dup {
				chosen = append(chosen, blocks[j])
			}
		}
		text, desc := composeDetGrammar(name, chosen, src)
		p := filepath.Join(dir, name+".tm")
		if err := os.WriteFile(p, []byte(text), 0o644); err != nil {
			return nil, nil, err
		}
		id := "composed/" + name
		pool = append(pool, detPool{ID: id, Path: p})
		descs[id] = desc
	}
	// size thresholds: one grammar far larger than any shipped one
	wname := "wide"
	wp := filepath.Join(dir, wname+".tm")
	if err := os.WriteFile(wp, []byte(wideGrammar(wname, 2600)), 0o644); err != nil {
		return nil, nil, err
	}
	pool = append(pool, detPool{ID: "composed/" + wname, Path: wp})
	descs["composed/"+wname] = "go/wide[2600 nonterminals over 12-bit words | optimizeTables]"
	return pool, descs, nil
}
