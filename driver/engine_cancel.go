package main

import (
	"path/filepath"
	"time"
)

func init() {
	engines["cancelsim"] = &engineSpec{
		name:           "cancelsim",
		property:       "C29",
		prepare:        prepareCancel,
		quickBudget:    60 * time.Second,
		thoroughBudget: 1500 * time.Second,
		sequentialSUT:  true, // generated parsers start no goroutines: a stuck parse is stuck on every replay
		realVsStub: map[string]string{
			"parsers/tm, parsers/tm/ast, parsers/js (generated tables + hand-written parser_impl.go), parsers/js/ast, parsers/test": "real code, public entry points",
			"freshly generated cancellable parsers (current tree's templates, via `textmapper generate`)":                         "real code",
			"lexers, token streams, AST builders":                                  "real code",
			"context.Context":                                                      "stub simCtx (counts Done() polls, fires at a tape-chosen tick); one context kind wraps a real context.WithCancel",
			"Listener / ErrorHandler":                                              "stub recorder (each callback is a simulated tick; error-handler policy drawn from the tape)",
			"the cancelling party":                                                 "simulated task firing at a tape-chosen tick (poll, listener event, error-handler call, pre-cancelled, never)",
			"goroutine scheduling":                                                 "none: one goroutine; replay is exact by construction",
			"a second caller":                                                      "simulated: runs to completion inside a listener callback of the first caller (the only point where a parse hands control back), at a tape-chosen event",
		},
		rule: "One run = one parser entry point + one generated input (20..140000 tokens; flat, deeply nested, phase-swept, or with long runs of reported never-shifted tokens; 40% damaged for recovering parsers) + one uncancelled reference parse + 4..12 cancelled parses whose firing tick is stratified over polls / tick before / tick after / lookahead polls / error-handler calls / uniform / pre-cancelled / never. " +
			"A third of the runs then reuse one set of parser objects for a cancelled parse followed by a never-cancelled one (of the same input or of a variant sharing offsets with it), and a third interleave two callers with separate parser objects (A descheduled inside its listener at a tape-chosen event, possibly cancelled meanwhile; B runs a whole parse; A resumes). " +
			"A run is non-trivial when at least one cancellation that fired after the first poll was observed (the parse returned ctx.Err()). distinct_nontrivial counts distinct (entry point, multiset of (firing tick kind, observing poll bucket, outcome)) fingerprints among non-trivial runs.",
		assumptions: []string{
			"the parser interacts with its environment only through ctx.Done/Err, the Listener and the ErrorHandler (checked by reading the template: no goroutines, timers or I/O)",
			"parser progress is observed through listener event end offsets; inputs for the bounded-stop check are flat lists of short items so the lag is a few tokens",
			"bound B=4096 tokens for 'bounded number of shifted tokens' (independent of input length; not the implementation's 512)",
			"sampling, not proof",
		},
		probes: []string{
			"outcome:ctx-error", "outcome:completed-despite-cancel", "outcome:cancel-never-fired",
			"observed-by-main-poll", "observed-by-lookahead-poll", "fired-inside-error-handler",
			"cancel-observed-on-invalid-input", "ref:has-lookahead-poll", "bounded:cancel-with->=3B-tokens-left",
			"input:valid", "input:invalid",
			"cancel:Canceled", "cancel:DeadlineExceeded", "cancel:custom-error", "cancel:std-WithCancel",
			"cancel-at:P", "cancel-at:L", "cancel-at:E", "cancel-at:H", "cancel-at:0",
			"reuse:parse-after-cancelled-parse", "reuse:next-parse-on-a-different-input",
			"two-callers:interleaved-after-cancelled-parse", "two-callers:descheduled-caller-cancelled",
		},
	}
}

func prepareCancel(cfg *config) ([]string, []string, map[string]any, error) {
	ov := newOverlay()
	h := filepath.Join(cfg.verifDir, "harness")
	if err := ov.mapDir(filepath.Join(h, "sim"), filepath.Join(cfg.repo, "zzverif", "sim")); err != nil {
		return nil, nil, nil, err
	}
	if err := ov.mapDir(filepath.Join(h, "cancelsim"), filepath.Join(cfg.repo, "zzverif", "cancelsim")); err != nil {
		return nil, nil, nil, err
	}
	info := map[string]any{}
	if err := generateBatch(cfg, ov, info); err != nil {
		return nil, nil, nil, err
	}
	ovPath := filepath.Join(cfg.scratch, "overlay-cancel.json")
	if err := ov.write(ovPath); err != nil {
		return nil, nil, nil, err
	}
	bin := filepath.Join(cfg.scratch, "cancelsim.bin")
	if _, err := goRun(cfg.repo, "build", "-overlay", ovPath, "-o", bin, "./zzverif/cancelsim"); err != nil {
		return nil, nil, nil, err
	}
	return []string{bin}, nil, info, nil
}
