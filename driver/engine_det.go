package main

import (
	"encoding/json"
	"fmt"
	"os"
	"os/exec"
	"path/filepath"
	"regexp"
	"sort"
	"strings"
	"sync"
	"time"
)

func init() {
	engines["detsim"] = &engineSpec{
		name:           "detsim",
		property:       "C18",
		prepare:        prepareDet,
		quickBudget:    75 * time.Second,
		thoroughBudget: 1500 * time.Second,
		watchdog:       300 * time.Second, // a history holds up to 5 generations, twice each; js alone takes many seconds under load
		sequentialSUT:  true,
		realVsStub: map[string]string{
			"compiler.Compile, lalr, lex, syntax, grammar, gen.Generate, templates, FormatGo, import extraction": "real code (map range expressions and time.Now/Since rewritten to go through zzsim in an overlay copy)",
			"gen.Writer":               "stub: recording writer (sequence of (filename, sha256(content)))",
			"Go map iteration order":   "simulated: per site and per generation a tape-drawn policy (ascending, descending, rotation, seeded shuffle varying per execution); every produced order is one the Go spec permits",
			"wall clock":               "simulated: tape-chosen epoch (1970..2262) and jump per reading (0ns..40 years), never backwards",
			"process environment":       "simulated per generation from the tape: PATH (inherited / empty / fake gofmt, goimports, clang-format, prettier that visibly alter their input, ahead of the inherited PATH), working directory (inherited / grammar's directory / root), LANG, LC_ALL and TZ; HOME, XDG_CACHE_HOME, XDG_CONFIG_HOME and TMPDIR point into a directory that lives exactly as long as the run, so files the generator leaves in the user's directories are part of the run's history and of nothing else",
			"gen.Options":               "default, except in the overlay-first history shape, whose first generation runs with IncludeDirs = a template overlay redefining the file header",
			"process / earlier history": "a run is a sequence of 1..5 generations in one fresh child process (so the history is exactly what the tape says), compared with references produced by other fresh processes; GOMAXPROCS 1, 4 or 16 per worker",
			"goroutine scheduling":     "none exists on this path (the rewriter fails closed, exit 2, if a go statement, select, math/rand or os.Getenv appears there)",
		},
		rule: "One run = a history of 1..5 generations (shipped grammars incl. rarely js, testing/{cpp,ts} grammars, compiler/testdata grammars with a target, synthetic grammars aimed at the instrumented sites), each under tape-drawn map-order policies for all rewritten range sites and a tape-drawn clock; oracle: the recorded (filename, sha256) sequence equals the fresh-process all-ascending reference, and for shipped grammars the content equals the committed files. " +
			"History shapes also include: the same grammar first under a template overlay and then plainly (large grammars preferred), and a grammar whose output exceeds 6e6 bytes (the formatter's size threshold). Every generation runs under a tape-drawn process environment. " +
			"A run is non-trivial when at least one map walk over >= 2 keys was actually permuted. distinct_nontrivial counts distinct (history, per-step set of (site, policy kind)) fingerprints among non-trivial runs; distinct_states counts distinct (site, key count, permutation fingerprint) triples.",
		assumptions: []string{
			"every order MapSeq yields is permitted by the Go specification for range over a map (snapshot of keys, deleted entries skipped, added entries not produced)",
			"one policy per site per generation (shuffles re-seeded per execution), not an independent choice per execution",
			"references come from the instrumented build with every map ascending; an un-instrumented natural-order run in a fresh process must agree with them (fidelity check) or the check exits 2",
			"the grammar path handed to the generator is part of the request and is held fixed (absolute): the tree itself embeds it verbatim in cc #line directives, so output that varies with the spelling of the path is not counted as nondeterminism",
			"sampling, not proof",
		},
	}
}

type detPool struct {
	ID        string `json:"id"`
	Path      string `json:"path"`
	Committed bool   `json:"committed"`
	Heavy     bool   `json:"heavy"`
	Lang      string `json:"lang"`
	Name      string `json:"name"`
}

type detFileSum struct {
	Name string `json:"name"`
	SHA  string `json:"sha256"`
}

type detRef struct {
	ID    string       `json:"id"`
	Files []detFileSum `json:"files"`
	Err   string       `json:"err,omitempty"`
}

type detSetup struct {
	Pool  []detPool          `json:"pool"`
	Sites []string           `json:"sites"`
	Refs  map[string]*detRef `json:"refs"`
}

func detGrammarPool(cfg *config) []detPool {
	var pool []detPool
	for _, g := range []string{"json", "simple", "test", "tm", "js"} {
		name := g
		if g == "tm" {
			name = "textmapper"
		}
		p := filepath.Join(cfg.repo, "parsers", g, name+".tm")
		if _, err := os.Stat(p); err == nil {
			pool = append(pool, detPool{ID: "parsers/" + g, Path: p, Committed: true, Heavy: g == "js"})
		}
	}
	for _, rel := range []string{"testing/cpp/json/json.tm", "testing/cpp/json_flex/json.tm", "testing/ts/json/json.tm"} {
		p := filepath.Join(cfg.repo, rel)
		if _, err := os.Stat(p); err == nil {
			pool = append(pool, detPool{ID: filepath.Dir(rel), Path: p})
		}
	}
	if m, _ := filepath.Glob(filepath.Join(cfg.repo, "compiler/testdata/*.tm")); m != nil {
		sort.Strings(m)
		for _, p := range m {
			pool = append(pool, detPool{ID: "testdata/" + filepath.Base(p), Path: p})
		}
	}
	if m, _ := filepath.Glob(filepath.Join(cfg.verifDir, "harness/detsim/grammars/*.tm")); m != nil {
		sort.Strings(m)
		for _, p := range m {
			pool = append(pool, detPool{ID: "synthetic/" + strings.TrimSuffix(filepath.Base(p), ".tm"), Path: p})
		}
	}
	return pool
}

func detRefs(bin, setupPath string, pool []detPool, par int) (map[string]*detRef, error) {
	refs := map[string]*detRef{}
	var mu sync.Mutex
	var wg sync.WaitGroup
	sem := make(chan struct{}, par)
	var firstErr error
	for _, p := range pool {
		wg.Add(1)
		sem <- struct{}{}
		go func(p detPool) {
			defer wg.Done()
			defer func() { <-sem }()
			cmd := exec.Command(bin, "-ref", p.ID)
			cmd.Env = append(os.Environ(), "ZZ_DETSIM_SETUP="+setupPath, "ZZ_DETSIM_SCRATCH="+filepath.Dir(setupPath))
			out, err := cmd.Output()
			mu.Lock()
			defer mu.Unlock()
			if err != nil {
				// the generator itself died (log.Fatal / panic) on this grammar: not a pool member
				refs[p.ID] = &detRef{ID: p.ID, Err: "generator process died: " + err.Error()}
				return
			}
			var r detRef
			if jerr := json.Unmarshal(lastLine(out), &r); jerr != nil {
				firstErr = fmt.Errorf("reference run of %s: %v: %.200s", p.ID, jerr, out)
				return
			}
			refs[p.ID] = &r
		}(p)
	}
	wg.Wait()
	return refs, firstErr
}

func lastLine(b []byte) []byte {
	lines := strings.Split(strings.TrimSpace(string(b)), "\n")
	return []byte(lines[len(lines)-1])
}

func sameRef(a, b *detRef) bool {
	if a == nil || b == nil || a.Err != b.Err || len(a.Files) != len(b.Files) {
		return false
	}
	for i := range a.Files {
		if a.Files[i] != b.Files[i] {
			return false
		}
	}
	return true
}

func prepareDet(cfg *config) ([]string, []string, map[string]any, error) {
	rw, err := rewriteDeterminismSeams(cfg.repo)
	if err != nil {
		return nil, nil, nil, err
	}
	if rw.mapSites == 0 {
		return nil, nil, nil, fmt.Errorf("seam not found: no range-over-map site in the module (rewriter broken?)")
	}
	h := filepath.Join(cfg.verifDir, "harness")
	base := newOverlay()
	for _, d := range []string{"sim", "zzsim", "detsim"} {
		if err := base.mapDir(filepath.Join(h, d), filepath.Join(cfg.repo, "zzverif", d)); err != nil {
			return nil, nil, nil, err
		}
	}
	plainOv := filepath.Join(cfg.scratch, "overlay-det-plain.json")
	if err := base.write(plainOv); err != nil {
		return nil, nil, nil, err
	}
	inst := newOverlay()
	for k, v := range base.Replace {
		inst.Replace[k] = v
	}
	if err := rw.addTo(inst, cfg.scratch); err != nil {
		return nil, nil, nil, err
	}
	instOv := filepath.Join(cfg.scratch, "overlay-det.json")
	if err := inst.write(instOv); err != nil {
		return nil, nil, nil, err
	}
	bin := filepath.Join(cfg.scratch, "detsim.bin")
	plain := filepath.Join(cfg.scratch, "detsim-plain.bin")
	if _, err := goRun(cfg.repo, "build", "-overlay", instOv, "-o", bin, "./zzverif/detsim"); err != nil {
		return nil, nil, nil, fmt.Errorf("instrumented build: %w", err)
	}
	if _, err := goRun(cfg.repo, "build", "-overlay", plainOv, "-o", plain, "./zzverif/detsim"); err != nil {
		return nil, nil, nil, fmt.Errorf("plain build: %w", err)
	}

	pool := detGrammarPool(cfg)
	// grammars composed from building blocks under drawn options (VERIF_SEED decides which)
	nComposed := 26 // at least one composition dedicated to each block
	if cfg.tier == "thorough" {
		nComposed = 48
	}
	composed, composedDesc, err := composeDetPool(cfg, nComposed)
	if err != nil {
		return nil, nil, nil, err
	}
	pool = append(pool, composed...)
	// a grammar whose generated lexer.go is larger than any shipped file (6.1 MB): size
	// thresholds on the post-processing path (FormatGo has one) are crossed only here
	hugeDir := filepath.Join(cfg.scratch, "detsim-huge")
	if err := os.MkdirAll(hugeDir, 0o755); err != nil {
		return nil, nil, nil, err
	}
	hugePath := filepath.Join(hugeDir, "huge.tm")
	if err := os.WriteFile(hugePath, []byte(hugeGrammar()), 0o644); err != nil {
		return nil, nil, nil, err
	}
	pool = append(pool, detPool{ID: "synthetic/huge-output", Path: hugePath, Heavy: true})
	// and one whose lexer transition table has about 1.8 million entries (the largest shipped
	// table, in js, has 0.44 million): thresholds on table sizes are crossed only here
	tablePath := filepath.Join(hugeDir, "hugetable.tm")
	if err := os.WriteFile(tablePath, []byte(hugeTableGrammar()), 0o644); err != nil {
		return nil, nil, nil, err
	}
	pool = append(pool, detPool{ID: "synthetic/huge-table", Path: tablePath, Heavy: true})
	// grammars whose generation fails on purpose, after compilation, while semantic actions
	// are rendered: derived from grammars of the tree, run only as history (never compared)
	for _, b := range []struct{ id, rel, old, new string }{
		{"broken/cc-json", "testing/cpp/json/json.tm", "{ $$ = 5; }", "{ LEFTOVER_BEFORE_FAILURE(); $$ = 5; $$ = $nosuchsymbol; }"},
		{"broken/cc-json-flex", "testing/cpp/json_flex/json.tm", "{ $$ = 5; }", "{ LEFTOVER_BEFORE_FAILURE(); $$ = 5; $$ = $nosuchsymbol; }"},
		{"broken/go-json", "parsers/json/json.tm", "{ val := $lparen; _ = val }", "{ val := $lparen; _ = val; _ = $nosuchsymbol }"},
	} {
		text, err := os.ReadFile(filepath.Join(cfg.repo, b.rel))
		if err != nil || !strings.Contains(string(text), b.old) {
			continue
		}
		bp := filepath.Join(cfg.scratch, "detsim-"+strings.ReplaceAll(b.id, "/", "-")+".tm")
		if err := os.WriteFile(bp, []byte(strings.Replace(string(text), b.old, b.new, 1)), 0o644); err != nil {
			continue
		}
		pool = append(pool, detPool{ID: b.id, Path: bp})
	}
	var sites []string
	var wantProbes []string
	for _, s := range rw.sites {
		if s.Kind == "map-range" || strings.HasPrefix(s.Kind, "maps.") {
			sites = append(sites, s.ID)
			for _, pfx := range []string{"compiler/", "gen/", "grammar/", "lalr/", "syntax/", "lex/"} {
				if strings.HasPrefix(s.ID, pfx) {
					wantProbes = append(wantProbes, "site-permuted:"+s.ID)
				}
			}
		}
	}
	sort.Strings(sites)
	for i := range pool {
		pool[i].Lang, pool[i].Name = grammarLang(pool[i].Path)
	}
	setup := &detSetup{Pool: pool, Sites: sites, Refs: map[string]*detRef{}}
	setupPath := filepath.Join(cfg.scratch, "detsim-setup.json")
	if err := writeJSON(setupPath, setup); err != nil {
		return nil, nil, nil, err
	}
	refs, err := detRefs(bin, setupPath, pool, cfg.workers)
	if err != nil {
		return nil, nil, nil, err
	}
	// instrumentation fidelity: the un-instrumented natural-order run agrees with the
	// instrumented all-ascending reference. A disagreement, with the instrumented runs
	// agreeing among themselves, indicts the rewriter (exit 2), not the tree.
	natural, err := detRefs(plain, setupPath, pool, cfg.workers)
	if err != nil {
		return nil, nil, nil, err
	}
	var usable, skipped, failing []string
	var disagree []string
	for _, p := range pool {
		r := refs[p.ID]
		if strings.HasPrefix(p.ID, "broken/") {
			if r != nil && r.Err != "" {
				failing = append(failing, p.ID+": "+firstLine(r.Err))
			}
			continue
		}
		if r == nil || r.Err != "" {
			skipped = append(skipped, p.ID)
			continue
		}
		usable = append(usable, p.ID)
		if !sameRef(r, natural[p.ID]) {
			disagree = append(disagree, p.ID)
		}
	}
	if len(usable) == 0 {
		return nil, nil, nil, fmt.Errorf("no grammar of the pool generates on this tree")
	}
	setup.Refs = refs
	if err := writeJSON(setupPath, setup); err != nil {
		return nil, nil, nil, err
	}
	info := map[string]any{
		"map_range_sites":        rw.sites,
		"grammars":               usable,
		"composed_grammars":      composedDesc,
		"grammars_skipped":       skipped,
		"failing_grammars_used_as_history": failing,
		"natural_vs_reference":   fmt.Sprintf("%d grammars: un-instrumented natural-order output compared with the instrumented all-ascending reference, %d differ", len(usable), len(disagree)),
		"natural_order_disagree": disagree,
	}
	if len(rw.unowned) > 0 {
		info["cannot_vouch"] = rw.unowned
	}
	engines["detsim"].probes = append(wantProbes, "generation-with-history", "committed-files-compared", "map-order-permuted", "clock-jump", "environment-varied", "generation-under-template-overlay", "twin-execution-compared", "failed-generation-in-history", "ctx:fired", "ctx:generation-failed-after-cancel")
	// every run in a fresh child process: the only history a run sees is the one its tape describes
	return []string{bin, "-isolate"}, []string{"ZZ_DETSIM_SETUP=" + setupPath, "ZZ_DETSIM_SCRATCH=" + cfg.scratch}, info, nil
}

func hugeGrammar() string {
	var sb strings.Builder
	sb.WriteString("language huge(go);\n\nlang = \"huge\"\npackage = \"github.com/inspirer/textmapper/zzverif/huge\"\n\n:: lexer\n\n")
	sb.WriteString("space: /[ \\t\\r\\n]+/ (space)\nid: /[a-z]+/\n{\n")
	for sb.Len() < 6_100_000 {
		sb.WriteString("_   =   1+2\n") // valid Go that a formatter would rewrite
	}
	sb.WriteString("}\n")
	return sb.String()
}

func hugeTableGrammar() string {
	var b strings.Builder
	b.WriteString("language hugetable(go);\n\nlang = \"hugetable\"\npackage = \"github.com/inspirer/textmapper/zzverif/hugetable\"\ngenParser = false\n\n:: lexer\n\n")
	for i := 0; i < 400; i++ { // each single-character token is a DFA input symbol of its own
		fmt.Fprintf(&b, "ch%04d: /%c/\n", i, rune(0x400+i))
	}
	seen := map[string]bool{}
	x := uint32(20260922)
	for n := 0; n < 600; { // each keyword is a chain of states
		var w [7]byte
		for i := range w {
			x = x*1664525 + 1013904223
			w[i] = byte('a' + (x>>16)%26)
		}
		if seen[string(w[:])] {
			continue
		}
		seen[string(w[:])] = true
		fmt.Fprintf(&b, "kw%04d: /%s/\n", n, w[:])
		n++
	}
	b.WriteString("space: /[ \\t\\r\\n]+/ (space)\n")
	return b.String()
}

var langHeaderRe = regexp.MustCompile(`(?m)^language\s+(\S+?)\((\w+)\)`)

// grammarLang reads the target language and the language name from the grammar's header.
func grammarLang(path string) (lang, name string) {
	b, err := os.ReadFile(path)
	if err != nil {
		return "?", "?"
	}
	if m := langHeaderRe.FindSubmatch(b); m != nil {
		return string(m[2]), string(m[1])
	}
	return "none", "none"
}

func firstLine(s string) string {
	if i := strings.IndexByte(s, '\n'); i >= 0 {
		s = s[:i]
	}
	if len(s) > 160 {
		s = s[:160]
	}
	return s
}
