package main

import (
	"bytes"
	"fmt"
	"go/ast"
	"go/format"
	"go/parser"
	"go/token"
	"os"
	"os/exec"
	"path/filepath"
	"strings"
	"time"

	"golang.org/x/tools/go/ast/astutil"
)

func init() {
	engines["lssim"] = &engineSpec{
		name:           "lssim",
		property:       "C23",
		prepare:        prepareLS,
		quickBudget:    60 * time.Second,
		thoroughBudget: 1500 * time.Second,
		realVsStub: map[string]string{
			"cmd/textmapper.startLS, ls.Server, compiler, parsers/tm, status": "real code",
			"go.lsp.dev/protocol dispatch and handlers (Cancel/Async/Reply)":   "real code",
			"go.lsp.dev/jsonrpc2 conn, stream, framing, handlers":              "real code, plus two seams in a scratch copy of the module: a yield call before conn.writeMu.Lock(), and a wrapper around each call's cancellable context whose Done() is a yield point",
			"zap logger":                                                       "real, sink redirected to /dev/null",
			"stdin/stdout (cmd/textmapper/ls.go:transport)":                    "stub: simulated duplex byte pipe (fragmentation, EOF, EPIPE, torn frames from the tape); os.Stdin/os.Stdout selectors rewritten in an overlay copy of ls.go",
			"LSP client":                                                       "stub: script generated from the tape; honours the synchronisation kind of the server's real initialize result (read once per process; ranged edits when incremental); does not answer server-to-client requests (announces no such capability); reference model = sequential execution in send order",
			"goroutine scheduling":                                             "Go runtime inside a testing/synctest bubble; which parked writer proceeds and when client bytes arrive is decided by the tape; every step runs to quiescence (synctest.Wait)",
			"wall clock":                                                       "fake (synctest)",
		},
		rule: "One run = one generated client script (initialize + 2..40 of didOpen/didChange/didClose/didSave/definition/$/cancelRequest/unknown/shutdown over 1..3 URIs, documents = mutated grammars with non-ASCII text ahead of identifiers) delivered over the simulated pipe under a tape-chosen schedule (chunking of the byte stream x release order of parked writers x faults). " +
			"A run is non-trivial when at least one publishDiagnostics was produced and checked. distinct_nontrivial counts distinct schedules = distinct sequences of (delivery kind | released writer kind | fault kind) among non-trivial runs; distinct_states counts distinct (unanswered changes, parked writers, answered changes, client-gone) tuples at quiescent points.",
		assumptions: []string{
			"a cancel can land before a handler body starts, after it, or at any cancellation poll the body makes on its request context (ctx.Done() is a yield point); between two polls the body cannot observe it anyway",
			"one client, one ordered connection: the specification is sequential execution in send order",
			"expected diagnostics = compiler.Compile on the same text (pure), byte offsets converted to UTF-16 by the harness's own arithmetic",
			"a dead client (EPIPE) is permanent; content checks stop at the torn frame, crash/termination checks continue",
			"sampling, not proof",
		},
		probes: []string{
			"split-inside-header-separator", "split-inside-utf8-sequence", "frames-coalesced", "single-byte-delivery", ">=3-frames-in-one-delivery",
			">=2-writers-parked", ">=3-writers-parked", "release-out-of-arrival-order",
			"cancel-hit-queued-call", "cancel-hit-finished-call", "cancel-after-response", "cancel-unknown-id", "cancel-held-back-one-step",
			"eof:between-frames", "eof:mid-frame", "epipe:header-write", "epipe:body-write(torn-frame)", "garbage-frame",
			"publish-with-diagnostics", "publish-empty", "diagnostic-after-non-ascii-prefix",
			"definition-nonempty", "definition-empty", "definition-error", "definition-request-cancelled", "definition-location-after-non-ascii-prefix", "definition-refinement-checked",
			"idle-obligations-checked", "compiler-warning-logged",
		},
	}
}

// rewriteLSTransport derives, from the current tree's cmd/textmapper/ls.go, a copy in
// which the transport talks to the harness's pipe instead of the process's stdin/stdout.
// It fails closed when the expected sites are not found.
func rewriteLSTransport(src string) ([]byte, error) {
	fset := token.NewFileSet()
	f, err := parser.ParseFile(fset, src, nil, parser.ParseComments)
	if err != nil {
		return nil, err
	}
	counts := map[string]int{}
	astutil.Apply(f, func(c *astutil.Cursor) bool {
		sel, ok := c.Node().(*ast.SelectorExpr)
		if !ok {
			return true
		}
		x, ok := sel.X.(*ast.Ident)
		if !ok || x.Name != "os" {
			return true
		}
		switch sel.Sel.Name {
		case "Stdin":
			c.Replace(ast.NewIdent("zzStdin"))
			counts["stdin"]++
		case "Stdout":
			c.Replace(ast.NewIdent("zzStdout"))
			counts["stdout"]++
		}
		return true
	}, nil)
	if counts["stdin"] < 2 || counts["stdout"] < 2 {
		return nil, fmt.Errorf("seam not found in %s: expected os.Stdin/os.Stdout read, write and close sites in transport, found %v", src, counts)
	}
	// verify the sites are where we think they are: methods of type transport
	found := map[string]bool{}
	for _, d := range f.Decls {
		fd, ok := d.(*ast.FuncDecl)
		if !ok || fd.Recv == nil || len(fd.Recv.List) != 1 {
			continue
		}
		rt := fd.Recv.List[0].Type
		if st, ok := rt.(*ast.StarExpr); ok { // a pointer receiver is the same seam
			rt = st.X
		}
		if id, ok := rt.(*ast.Ident); ok && id.Name == "transport" {
			found[fd.Name.Name] = true
		}
	}
	for _, m := range []string{"Read", "Write", "Close"} {
		if !found[m] {
			return nil, fmt.Errorf("seam not found in %s: type transport has no method %s", src, m)
		}
	}
	// drop the "os" import if nothing else uses it
	usesOS := false
	ast.Inspect(f, func(n ast.Node) bool {
		if sel, ok := n.(*ast.SelectorExpr); ok {
			if x, ok := sel.X.(*ast.Ident); ok && x.Name == "os" {
				usesOS = true
			}
		}
		return true
	})
	if !usesOS {
		astutil.DeleteImport(fset, f, "os")
	}
	var buf bytes.Buffer
	if err := format.Node(&buf, fset, f); err != nil {
		return nil, err
	}
	return buf.Bytes(), nil
}

// patchJSONRPC2 copies the jsonrpc2 module named by the tree's go.mod into scratch and
// inserts the write-order yield before the single c.writeMu.Lock().
func patchJSONRPC2(cfg *config) (string, error) {
	out, err := goRun(cfg.repo, "list", "-m", "-f", "{{.Dir}}", "go.lsp.dev/jsonrpc2")
	if err != nil {
		return "", err
	}
	dir := strings.TrimSpace(string(out))
	if dir == "" {
		return "", fmt.Errorf("go.lsp.dev/jsonrpc2 is not in the module cache")
	}
	dst := filepath.Join(cfg.scratch, "jsonrpc2")
	if o, err := exec.Command("cp", "-r", dir, dst).CombinedOutput(); err != nil {
		return "", fmt.Errorf("copy jsonrpc2: %v: %s", err, o)
	}
	exec.Command("chmod", "-R", "u+w", dst).Run()
	p := filepath.Join(dst, "conn.go")
	b, err := os.ReadFile(p)
	if err != nil {
		return "", err
	}
	const site = "c.writeMu.Lock()"
	if bytes.Count(b, []byte(site)) != 1 {
		return "", fmt.Errorf("seam not found: expected exactly one %q in %s", site, p)
	}
	b = bytes.Replace(b, []byte(site), []byte("if VerifBeforeWrite != nil {\n\t\tVerifBeforeWrite(msg)\n\t}\n\t"+site), 1)
	b = append(b, []byte("\n// VerifBeforeWrite is the simulator's write-order yield (scratch copy only).\nvar VerifBeforeWrite func(msg Message)\n")...)
	if err := os.WriteFile(p, b, 0o644); err != nil {
		return "", err
	}
	// second seam: the per-request context, so that the simulator owns the instants at
	// which a handler body can observe its cancellation
	hp := filepath.Join(dst, "handler.go")
	hb, err := os.ReadFile(hp)
	if err != nil {
		return "", err
	}
	const ctxSite = "ctx = cancelCtx\n"
	if bytes.Count(hb, []byte(ctxSite)) != 1 {
		return "", fmt.Errorf("seam not found: expected exactly one %q in %s", strings.TrimSpace(ctxSite), hp)
	}
	hb = bytes.Replace(hb, []byte(ctxSite), []byte(ctxSite+"\t\t\tif VerifWrapCtx != nil {\n\t\t\t\tctx = VerifWrapCtx(ctx, call.ID())\n\t\t\t}\n"), 1)
	hb = append(hb, []byte("\n// VerifWrapCtx lets the simulator wrap the context of each call (scratch copy only).\nvar VerifWrapCtx func(ctx context.Context, id ID) context.Context\n")...)
	if err := os.WriteFile(hp, hb, 0o644); err != nil {
		return "", err
	}
	return dst, nil
}

func prepareLS(cfg *config) ([]string, []string, map[string]any, error) {
	ov := newOverlay()
	h := filepath.Join(cfg.verifDir, "harness")
	if err := ov.mapDir(filepath.Join(h, "sim"), filepath.Join(cfg.repo, "zzverif", "sim")); err != nil {
		return nil, nil, nil, err
	}
	ov.Replace[filepath.Join(cfg.repo, "cmd", "textmapper", "zz_lssim_test.go")] = filepath.Join(h, "lssim", "zz_lssim_test.go")
	lsSrc := filepath.Join(cfg.repo, "cmd", "textmapper", "ls.go")
	rewritten, err := rewriteLSTransport(lsSrc)
	if err != nil {
		return nil, nil, nil, err
	}
	lsDst := filepath.Join(cfg.scratch, "ls_rewritten.go")
	if err := os.WriteFile(lsDst, rewritten, 0o644); err != nil {
		return nil, nil, nil, err
	}
	ov.Replace[lsSrc] = lsDst

	j2, err := patchJSONRPC2(cfg)
	if err != nil {
		return nil, nil, nil, err
	}
	gomod, err := os.ReadFile(filepath.Join(cfg.repo, "go.mod"))
	if err != nil {
		return nil, nil, nil, err
	}
	modfile := filepath.Join(cfg.scratch, "ls.go.mod")
	gomod = append(gomod, []byte("\nreplace go.lsp.dev/jsonrpc2 => "+j2+"\n")...)
	if err := os.WriteFile(modfile, gomod, 0o644); err != nil {
		return nil, nil, nil, err
	}
	gosum, _ := os.ReadFile(filepath.Join(cfg.repo, "go.sum"))
	if err := os.WriteFile(filepath.Join(cfg.scratch, "ls.go.sum"), gosum, 0o644); err != nil {
		return nil, nil, nil, err
	}
	ovPath := filepath.Join(cfg.scratch, "overlay-ls.json")
	if err := ov.write(ovPath); err != nil {
		return nil, nil, nil, err
	}
	bin := filepath.Join(cfg.scratch, "lssim.test")
	if _, err := goRun(cfg.repo, "test", "-c", "-vet=off", "-overlay", ovPath, "-modfile", modfile, "-o", bin, "./cmd/textmapper"); err != nil {
		return nil, nil, nil, err
	}
	info := map[string]any{}
	if cfg.race {
		rbin := filepath.Join(cfg.scratch, "lssim-race.test")
		if _, err := goRun(cfg.repo, "test", "-c", "-race", "-vet=off", "-overlay", ovPath, "-modfile", modfile, "-o", rbin, "./cmd/textmapper"); err != nil {
			return nil, nil, nil, fmt.Errorf("-race build: %w", err)
		}
		info["alt_worker"] = []string{rbin, "-test.run=^TestZZLSSim$", "-test.timeout=0", "--"}
	}
	return []string{bin, "-test.run=^TestZZLSSim$", "-test.timeout=0", "--"}, []string{"VERIF_REPO=" + cfg.repo}, info, nil
}
