package main

// generateBatch generates a batch of fresh cancellable parsers with the current tree's
// generator and adds them (plus a registry file) to the overlay. Filled in below.
func generateBatch(cfg *config, ov *overlay, info map[string]any) error {
	return nil
}
