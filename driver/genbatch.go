package main

import (
	"bytes"
	"fmt"
	"os"
	"os/exec"
	"path/filepath"
	"strings"
	"text/template"

	"verif/harness/sim"
)

// A genFamily is a parametrised grammar from which cancellable parsers are generated with
// the current tree's `textmapper generate`, under options drawn per batch.
type genFamily struct {
	name       string
	text       string // grammar with %OPTS% and %NAME% placeholders
	recovery   bool   // has error rules => Parser.Init(eh, listener)
	lookaheads bool
	space      []string // token.Type names that are never shifted
	prologue   string
	sep        string
	items      []string
	deep       [][6]string // head, open, sep, core, close, tail: deeply nested items (see harness deepShape)
	values      bool   // semantic-value parser without a listener: actions report through zzEvent
	parseMethod string // name of the entry point (default Parse)
	// knobs this family may vary
	knobs []string
	// option combinations that are always part of a batch (before the random ones)
	presets [][]string
}

const famStmts = `language %NAME%(go);

lang = "%NAME%"
package = "github.com/inspirer/textmapper/zzverif/gen/%NAME%"
eventBased = true
cancellable = true
%OPTS%

:: lexer

ws: /[ \t\r\n]+/ (space)
comment: /#[^\n]*/ (space)
invalid_token:
error:
id: /[a-zA-Z_][a-zA-Z_0-9]*/ (class)
'print': /print/
'if': /if/
num: /[0-9]+/
'=': /=/
'+': /\+/
'*': /\*/
'(': /\(/
')': /\)/
'{': /\{/
'}': /\}/
',': /,/
';': /;/

:: parser

%input File;

%inject comment -> Comment;
%inject invalid_token -> InvalidToken;

%left '+';
%left '*';

File -> File: Stmt+ ;

Stmt -> Stmt:
    id '=' Expr ';'             -> Assign
  | 'print' Expr ';'            -> Print
  | '{' Stmt* '}'               -> Block
  | 'if' '(' Expr ')' Stmt      -> If
  | error ';'                   -> Broken
;

Expr -> Expr:
    Expr '+' Expr               -> Add
  | Expr '*' Expr               -> Mul
  | '(' Expr ')'                -> Paren
  | id                          -> Ref
  | num                         -> Num
  | id '(' (Expr separator ',')* ')'   -> Call
;
`

const famDeepLA = `language %NAME%(go);

lang = "%NAME%"
package = "github.com/inspirer/textmapper/zzverif/gen/%NAME%"
eventBased = true
cancellable = true
%OPTS%

:: lexer

ws: /[ \t\r\n]+/ (space)
comment: /#[^\n]*/ (space)
invalid_token:
error:
id: /[a-wA-Z_][a-zA-Z_0-9]*/
num: /[0-9]+/
'x': /x/
'y': /y/
'z': /z/
'=': /=/
'(': /\(/
')': /\)/
';': /;/

:: parser lalr(3)

%input File;

%inject comment -> Comment;
%inject invalid_token -> InvalidToken;

File -> File: Stmt+ ;

Stmt -> Stmt:
    'z' X 'z' 'z' 'x' ';'       -> AX
  | 'z' Y 'z' 'z' 'y' ';'       -> AY
  | '(' P 'z' 'z' ')' ';'       -> BP
  | '(' Q 'z' 'z' '=' num ';'   -> BQ
  | id '=' num ';'              -> Assign
  | error ';'                   -> Broken
;

X -> X: 'z';
Y -> Y: 'z';
P -> P: id;
Q -> Q: id;
`

// chained lookaheads: the generated lookaheadRule/applyRule try predicates one after the
// other; nested ones make the lookahead sub-parser recursive.
const famLookahead = `language %NAME%(go);

lang = "%NAME%"
package = "github.com/inspirer/textmapper/zzverif/gen/%NAME%"
eventBased = true
cancellable = true
%OPTS%

:: lexer

ws: /[ \t\r\n]+/ (space)
id: /[a-zA-Z_][a-zA-Z_0-9]*/
num: /[0-9]+/
'(': /\(/
')': /\)/
'[': /\[/
']': /\]/
',': /,/
';': /;/
'=>': /=>/

:: parser

%input File;

File -> File: Item+ ;

Item -> Item:
    (?= IsTriple) '(' num ',' num ',' num ')' ';'                     -> Triple
  | (?= !IsTriple & IsPair) '(' num ',' num ')' ';'                   -> Pair
  | (?= !IsTriple & !IsPair & IsArrow) '(' Params ')' '=>' id ';'     -> Arrow
  | (?= !IsTriple & !IsPair & !IsArrow) '(' Nested ')' ';'            -> Paren
  | id ';'                                                            -> Name
;

Params -> Params: (id separator ',')* ;

Nested -> Nested:
    id
  | (?= IsArrow) '(' Params ')' '=>' id
  | (?= !IsArrow) '(' Nested ')'
  | '[' (Nested separator ',')+ ']'
;

IsPair: '(' num ',' ;
IsTriple: '(' num ',' num ',' ;
IsArrow: '(' Params ')' '=>' ;
`

// lookaheads + error recovery
const famLookaheadRecover = `language %NAME%(go);

lang = "%NAME%"
package = "github.com/inspirer/textmapper/zzverif/gen/%NAME%"
eventBased = true
cancellable = true
recursiveLookaheads = true
%OPTS%

:: lexer

ws: /[ \t\r\n]+/ (space)
invalid_token:
error:
id: /[a-zA-Z_][a-zA-Z_0-9]*/
num: /[0-9]+/
'(': /\(/
')': /\)/
'<': /</
'>': />/
',': /,/
';': /;/
'=': /=/

:: parser

%input File;

%inject invalid_token -> InvalidToken;

File -> File: Decl+ ;

Decl -> Decl:
    id '=' Value ';'                                       -> Let
  | error ';'                                              -> Broken
;

Value -> Value:
    (?= IsGenericCall) id '<' (Type separator ',')+ '>' '(' Args ')'   -> GenericCall
  | (?= !IsGenericCall & IsCall) id '(' Args ')'                       -> Call
  | (?= !IsGenericCall & !IsCall) id ('<' id)? ('>' id)?               -> Compare
  | num                                                                -> Num
;

Args -> Args: (Value separator ',')* ;

Type -> Type: id ('<' (Type separator ',')+ '>')? ;

IsGenericCall: id '<' (Type separator ',')+ '>' '(' ;
IsCall: id '(' ;
`

// a chain whose FIRST case is negated: (?= !A) | (?= A & B) | (?= A & !B)
const famLookaheadNegated = `language %NAME%(go);

lang = "%NAME%"
package = "github.com/inspirer/textmapper/zzverif/gen/%NAME%"
eventBased = true
cancellable = true
%OPTS%

:: lexer

ws: /[ \t\r\n]+/ (space)
id: /[a-zA-Z_][a-zA-Z_0-9]*/
num: /[0-9]+/
'[': /\[/
']': /\]/
',': /,/
';': /;/
':': /:/
'-': /-/

:: parser

%input File;

File -> File: Item+ ;

Item -> Item:
    (?= !IsNums) '[' '-'* (id separator ',')+ ']' ';'                      -> Ids
  | (?= IsNums & IsTyped) '[' '-'* (num separator ',')+ ':' id ']' ';'     -> TypedNums
  | (?= IsNums & !IsTyped) '[' '-'* (num separator ',')+ ']' ';'           -> Nums
  | id ';'                                                                 -> Name
;

IsNums: '[' '-'* num ;
IsTyped: '[' '-'* (num separator ',')+ ':' ;
`

// semantic values next to listener events, two %input nonterminals (one of them no-eoi),
// error recovery: the parse returns a value that must equal the reference's
const famValues = `language %NAME%(go);

lang = "%NAME%"
package = "github.com/inspirer/textmapper/zzverif/gen/%NAME%"
eventBased = true
cancellable = true
%OPTS%

:: lexer

ws: /[ \t\r\n]+/ (space)
comment: /#[^\n]*/ (space)
num {int}: /[0-9]+/  { $$ = len(l.Text()) }
id: /[a-z]+/
'+': /\+/
'*': /\*/
'(': /\(/
')': /\)/
',': /,/
';': /;/
'=': /=/
error:

:: parser

%input File, Expr no-eoi;

%inject comment -> Comment;

%left '+';
%left '*';

File {int} -> File:
    Stmt            { $$ = $Stmt }
  | File Stmt       { $$ = $File*31 + $Stmt }
;

Stmt {int} -> Stmt:
    Expr ';'                { $$ = $Expr }         -> ExprStmt
  | id '=' Expr ';'         { $$ = $Expr + 7 }     -> Assign
  | error ';'               { $$ = -1 }            -> Broken
;

Expr {int} -> Expr:
    Expr '+' Expr           { $$ = $0 + $2 }       -> Add
  | Expr '*' Expr           { $$ = $0 * $2 }       -> Mul
  | '(' Expr ')'            { $$ = $Expr }         -> Paren
  | num                     { $$ = $num }          -> Num
  | id '(' Args ')'         { $$ = $Args }         -> Call
;

Args {int} -> Args:
    Expr                    { $$ = 1 }
  | Args ',' Expr           { $$ = $Args + 1 }
;
`

var genFamilies = []*genFamily{
	{
		name: "stmts", text: famStmts, recovery: true, space: []string{"COMMENT", "INVALID_TOKEN"},
		sep: "\n",
		deep: [][6]string{
			{"", "{", " # c\n", "a = 1;", "}", ""},
			{"z = ", "(", " # c\n", "1", ")", ";"},
			{"", "if (a)", " # c\n", "b = 1;", "", ""},
			{"a = 1;\n", "", "# c\n", "b = 2;", "", ""}, // a long run of reported, never shifted tokens
		},
		items: []string{
			"a = 1;", "b = a + 2 * c;", "print a;", "print (a + b) * c;", "{ a = 1; b = 2; }", "if (a) b = 1;", "if (a + 1) { print b; }",
			"x = f(1, 2, g(3));", "y = f();", "# comment", "z = ((((1))));", "{ }", "{ { { print 1; } } }", "w = a * b * c + d * e + f;",
		},
		knobs:   []string{"optimizeTables", "fixWhitespace", "tokenLine", "tokenStream", "cancellableFetch"},
		presets: [][]string{{"tokenLine"}, {"tokenStream", "cancellableFetch", "tokenLine"}, {"optimizeTables", "fixWhitespace", "cancellableFetch"}},
	},
	{
		name: "values", text: famValues, recovery: true, values: true, parseMethod: "ParseFile", space: []string{"COMMENT"},
		sep: "\n",
		items: []string{
			"1;", "1 + 2 * 3;", "(1 + 2) * (3 + 4);", "a = 5;", "b = f(1, 2, 3) + 1;", "f(g(1), 2);", "((((7))));", "1 * 2 * 3 + 4 * 5 + 6;",
		},
		deep: [][6]string{
			{"", "(", " # c\n", "1", ")", ";"},
			{"q = 1", " + 2", "", "", "", ";"},
			{"1;\n", "", "# c\n", "2;", "", ""},
		},
		knobs:   []string{"optimizeTables", "cancellableFetch", "tokenLine"},
		presets: [][]string{{"tokenLine"}, {"optimizeTables", "cancellableFetch", "tokenLine"}},
	},
	{
		// lalr(3): conflicts resolved by reading further tokens from a copy of the lexer
		name: "deepla", text: famDeepLA, recovery: true, space: []string{"COMMENT", "INVALID_TOKEN"},
		sep: "\n",
		items: []string{
			"z z z z x ;", "z z z z y ;", "( a z z ) ;", "( b z z = 1 ;", "a = 1;", "# comment", "z z z z x ; z z z z y ;",
		},
		deep: [][6]string{
			{"a = 1;\n", "", "# c\n", "z z z z y ;", "", ""},
		},
		knobs:   []string{"cancellableFetch", "tokenLine", "tokenStream", "fixWhitespace"},
		presets: [][]string{{"tokenLine"}, {"cancellableFetch"}, {"tokenStream", "cancellableFetch", "tokenLine"}},
	},
	{
		name: "lookahead", text: famLookahead, lookaheads: true,
		sep: "\n",
		items: []string{
			"(1, 2, 3);", "(1, 2);", "(a, b) => c;", "() => d;", "(a);", "((a));", "((a, b) => c);", "([a, (b), (c) => d]);", "(((() => x)));", "name;",
			"([a, [b, [c]]]);", "(x) => y;", "(1, 2, 3);", "(a) => b;", "(1);",
		},
		knobs:   []string{"optimizeTables", "cancellableFetch", "tokenLine", "recursiveLookaheads"},
		presets: [][]string{{"tokenLine"}, {"recursiveLookaheads", "optimizeTables", "tokenLine"}, {"cancellableFetch"}},
	},
	{
		name: "lanegated", text: famLookaheadNegated, lookaheads: true,
		sep: "\n",
		items: []string{
			"[a, b, c];", "[- - - - - - a];", "[- - - x, y];", "[1, 2, 3];", "[- - 1, 2, 3, 4, 5, 6];", "[1, 2, 3 : t];", "[- - - - 7 : u];", "name;",
			"[- - - - - - - - - - - - k];", "[- a];", "[- - - - - a];", "[- 1];", "[- - - - - 1];", "[1];", "[a];",
		},
		knobs:   []string{"optimizeTables", "cancellableFetch", "recursiveLookaheads"},
		presets: [][]string{{}, {"recursiveLookaheads", "cancellableFetch"}},
	},
	{
		name: "larecover", text: famLookaheadRecover, recovery: true, lookaheads: true, space: []string{"INVALID_TOKEN"},
		sep: "\n",
		items: []string{
			"a = b;", "a = 1;", "a = f(1, 2);", "a = f();", "a = g<T>(x);", "a = g<T, U<V>>(f(1), h<W>());", "a = b < c;", "a = b < c > d;", "a = b > c;",
			"a = f(g<T>(1), b < c);",
		},
		knobs:   []string{"optimizeTables", "cancellableFetch", "tokenStream", "fixWhitespace"},
		presets: [][]string{{}, {"tokenStream"}, {"cancellableFetch", "optimizeTables"}},
	},
}

var adapterTmpl = template.Must(template.New("adapter").Parse(`// generated by /verif/driver for the cancelsim batch; DO NOT EDIT

package {{.Name}}

import (
	"context"
{{- if .Values}}
	"fmt"
{{- end}}

	"github.com/inspirer/textmapper/zzverif/gen/{{.Name}}/token"
)
// ZZSession keeps one Parser (and lexer / token stream) object for several parses.
type ZZSession struct {
	p Parser
{{- if .TokenStream}}
	s TokenStream
{{- else}}
	lx Lexer
{{- end}}
}

// Parse drives the generated parser through its public API.
func (z *ZZSession) Parse(ctx context.Context, in string, ev func(t, flags, off, end int), eh func(line, off, end int) bool) (string, error) {
{{- if .Values}}
	l := func(t NodeType, off, end int) { ev(int(t), 0, off, end) }
	z.lx.Init(in)
	z.p.Init(func(se SyntaxError) bool { return eh({{if .TokenLine}}se.Line{{else}}0{{end}}, se.Offset, se.Endoffset) }, l)
	v, err := z.p.{{.ParseMethod}}(ctx, &z.lx)
	return fmt.Sprint(v), err
{{- else}}
	l := func(t NodeType, off, end int) { ev(int(t), 0, off, end) }
{{- if .TokenStream}}
	z.s.Init(in, l)
{{- else}}
	z.lx.Init(in)
{{- end}}
{{- if .Recovery}}
	z.p.Init(func(se SyntaxError) bool { return eh({{if .TokenLine}}se.Line{{else}}0{{end}}, se.Offset, se.Endoffset) }, l)
{{- else}}
	z.p.Init(l)
{{- end}}
	return "", z.p.{{.ParseMethod}}(ctx, {{if .TokenStream}}&z.s{{else}}&z.lx{{end}})
{{- end}}
}

// ZZNewSession returns a parse function bound to one reusable set of objects.
func ZZNewSession() func(ctx context.Context, in string, ev func(t, flags, off, end int), eh func(line, off, end int) bool) (string, error) {
	z := &ZZSession{}
	return z.Parse
}

// ZZParse parses with fresh objects.
func ZZParse(ctx context.Context, in string, ev func(t, flags, off, end int), eh func(line, off, end int) bool) (string, error) {
	var z ZZSession
	return z.Parse(ctx, in, ev, eh)
}

// ZZTokenEnds lexes in with the generated lexer alone; tokens that are never shifted are left out.
func ZZTokenEnds(in string) []int {
	var lx Lexer
	lx.Init(in)
	var ends []int
	for t := lx.Next(); t != token.EOI; t = lx.Next() {
{{- if .Space}}
		switch t {
		case {{.Space}}:
			continue
		}
{{- end}}
		_, e := lx.Pos()
		ends = append(ends, e)
	}
	return ends
}
`))

type genInstance struct {
	Values      bool
	ParseMethod string
	Name        string
	Family      *genFamily
	Opts        map[string]bool
	TokenStream bool
	TokenLine   bool
	Recovery    bool
	Space       string
	Desc        string
}

// generateBatch generates a batch of fresh cancellable parsers with the current tree's
// generator and adds them (plus a registry file) to the overlay. A grammar the current tree
// rejects, or whose generated package does not build, is skipped and counted: that would be
// C17, which this technique does not decide.
func generateBatch(cfg *config, ov *overlay, info map[string]any) error {
	tmbin := filepath.Join(cfg.scratch, "textmapper.bin")
	if _, err := goRun(cfg.repo, "build", "-o", tmbin, "./cmd/textmapper"); err != nil {
		return fmt.Errorf("building the current tree's textmapper: %w", err)
	}
	src := sim.NewSearch(cfg.seed, 0x67656e) // batch options come from the seed too
	// the batch: every preset of every family, then random option draws
	type plan struct {
		fam *genFamily
		on  map[string]bool // nil = draw
	}
	var plans []plan
	for _, fam := range genFamilies {
		for _, pre := range fam.presets {
			on := map[string]bool{}
			for _, k := range pre {
				on[k] = true
			}
			plans = append(plans, plan{fam, on})
		}
	}
	extra := 3
	if cfg.tier == "thorough" {
		extra = 12
	}
	for i := 0; i < extra; i++ {
		plans = append(plans, plan{genFamilies[src.Draw(len(genFamilies))], nil})
	}
	var insts []*genInstance
	var skipped []string
	for i, pl := range plans {
		fam := pl.fam
		in := &genInstance{Name: fmt.Sprintf("g%02d", i+1), Family: fam, Opts: map[string]bool{}, Recovery: fam.recovery, TokenLine: true, Values: fam.values, ParseMethod: "Parse"}
		if fam.parseMethod != "" {
			in.ParseMethod = fam.parseMethod
		}
		var opts []string
		var on []string
		for _, k := range fam.knobs {
			v := src.Chance(1, 2)
			if pl.on != nil {
				v = pl.on[k]
			}
			in.Opts[k] = v
			opts = append(opts, fmt.Sprintf("%s = %v", k, v))
			if v {
				on = append(on, k)
			}
			switch k {
			case "tokenStream":
				in.TokenStream = v
			case "tokenLine":
				in.TokenLine = v
			}
		}
		var sp []string
		for _, s := range fam.space {
			sp = append(sp, "token."+s)
		}
		in.Space = strings.Join(sp, ", ")
		in.Desc = fmt.Sprintf("gen/%s[%s:%s]", in.Name, fam.name, strings.Join(on, ","))
		dir := filepath.Join(cfg.scratch, "gen", in.Name)
		if err := os.MkdirAll(dir, 0o755); err != nil {
			return err
		}
		text := strings.ReplaceAll(strings.ReplaceAll(fam.text, "%NAME%", in.Name), "%OPTS%", strings.Join(opts, "\n"))
		gpath := filepath.Join(dir, in.Name+".tm")
		if err := os.WriteFile(gpath, []byte(text), 0o644); err != nil {
			return err
		}
		cmd := exec.Command(tmbin, "generate", "-o", dir, gpath)
		if out, err := cmd.CombinedOutput(); err != nil {
			skipped = append(skipped, fmt.Sprintf("%s: generate failed: %s", in.Desc, tail(string(out), 3)))
			continue
		}
		var buf bytes.Buffer
		if err := adapterTmpl.Execute(&buf, in); err != nil {
			return err
		}
		if err := os.WriteFile(filepath.Join(dir, "zz_adapter.go"), buf.Bytes(), 0o644); err != nil {
			return err
		}
		insts = append(insts, in)
	}

	// build check per package so that one broken variant does not take the batch down
	var good []*genInstance
	for _, in := range insts {
		o := newOverlay()
		addGenerated(cfg, o, in)
		p := filepath.Join(cfg.scratch, "ov-"+in.Name+".json")
		if err := o.write(p); err != nil {
			return err
		}
		if _, err := goRun(cfg.repo, "build", "-overlay", p, "./zzverif/gen/"+in.Name+"/..."); err != nil {
			skipped = append(skipped, fmt.Sprintf("%s: generated package does not build: %s", in.Desc, tail(err.Error(), 4)))
			continue
		}
		good = append(good, in)
	}
	var reg bytes.Buffer
	reg.WriteString("// generated by /verif/driver; DO NOT EDIT\n\npackage main\n\n")
	if len(good) > 0 {
		reg.WriteString("import (\n")
		for _, in := range good {
			fmt.Fprintf(&reg, "\t%s \"github.com/inspirer/textmapper/zzverif/gen/%s\"\n", in.Name, in.Name)
		}
		reg.WriteString(")\n\n")
	}
	reg.WriteString("func initGenerated() {\n")
	var names []string
	for _, in := range good {
		addGenerated(cfg, ov, in)
		fmt.Fprintf(&reg, "\tregisterGenerated(%q, %s.ZZParse, %s.ZZNewSession, %s.ZZTokenEnds, &corpus{prologue: %q, sep: %q, items: %#v}, %#v, %v, %v)\n",
			in.Desc, in.Name, in.Name, in.Name, in.Family.prologue, in.Family.sep, in.Family.items, in.Family.deep, in.Recovery, in.Family.lookaheads)
		names = append(names, in.Desc)
	}
	reg.WriteString("}\n")
	regPath := filepath.Join(cfg.scratch, "registry_gen.go")
	if err := os.WriteFile(regPath, reg.Bytes(), 0o644); err != nil {
		return err
	}
	ov.Replace[filepath.Join(cfg.repo, "zzverif", "cancelsim", "registry.go")] = regPath
	info["generated_parsers"] = names
	info["generated_parsers_skipped"] = skipped
	if len(good) == 0 {
		info["generated_parsers_note"] = "no generated parser could be built from the current tree; only the shipped parsers were simulated"
	}
	return nil
}

func addGenerated(cfg *config, ov *overlay, in *genInstance) {
	root := filepath.Join(cfg.scratch, "gen", in.Name)
	filepath.Walk(root, func(path string, fi os.FileInfo, err error) error {
		if err != nil || fi.IsDir() || !strings.HasSuffix(path, ".go") {
			return nil
		}
		rel, _ := filepath.Rel(root, path)
		ov.Replace[filepath.Join(cfg.repo, "zzverif", "gen", in.Name, rel)] = path
		return nil
	})
}
