// Command driver orchestrates the deterministic-simulation checks of /verif.
//
//	driver run <engine>            run the check for one engine (tier from VERIF_TIER / -tier)
//	driver replay <file>           re-execute a replay file in a fresh process
//	driver selftest <engine>       determinism self-test only
//
// Exit codes: 0 the property held on everything explored (known findings are printed),
// 1 a violation that is not a listed known finding, 2 the machinery could not decide.
package main

import (
	"encoding/json"
	"flag"
	"fmt"
	"os"
	"os/signal"
	"path/filepath"
	"runtime"
	"strconv"
	"syscall"
	"time"
)

const goBinDir = "/opt/veriftools/go1.26.8/bin"

type config struct {
	verifDir string
	outDir   string // where evidence/ and replays/ are written (VERIF_OUT; default verifDir)
	repo     string
	scratch  string
	tier     string
	seed     uint64
	workers  int
	budget   time.Duration // search budget (wall clock) after the build
	verbose  bool
	race     bool // also build the -race variant of the worker (lssim; thorough tier or VERIF_RACE=1)
}

// engineSpec is what an engine contributes to the driver.
type engineSpec struct {
	name     string
	property string
	// prepare builds the instrumented worker binary from cfg.repo and returns the
	// command line prefix that starts a worker.
	prepare func(cfg *config) (worker []string, env []string, info map[string]any, err error)
	// quick/thorough search budgets
	quickBudget, thoroughBudget time.Duration
	realVsStub                  map[string]string
	rule                        string
	assumptions                 []string
	// probes that are expected to be reachable; zeros are listed in the evidence
	probes []string
	// optional extra phases run before the search (e.g. reference comparison)
	pre func(cfg *config, ctx *runCtx) error
	// watchdog bounds the wall-clock time of one simulated run (0 = runWatchdog)
	watchdog time.Duration
	// sequentialSUT: the code under test has no goroutines on the simulated path (the
	// engine's build fails closed otherwise), so a stuck run is stuck on every replay of
	// its tape. For such an engine a run that outlived the watchdog in the search and then
	// completes, without a violation, on every replay was slow (machine load), not stuck.
	sequentialSUT bool
}

func (e *engineSpec) dog() time.Duration {
	if e.watchdog > 0 {
		return e.watchdog
	}
	return runWatchdog
}

var engines = map[string]*engineSpec{}

func die2(format string, args ...any) {
	fmt.Fprintf(os.Stderr, "driver: cannot decide: "+format+"\n", args...)
	cleanup()
	os.Exit(2)
}

var cleanups []func()

func cleanup() {
	for i := len(cleanups) - 1; i >= 0; i-- {
		cleanups[i]()
	}
	cleanups = nil
}

func envOr(k, d string) string {
	if v := os.Getenv(k); v != "" {
		return v
	}
	return d
}

func main() {
	if len(os.Args) < 3 {
		fmt.Fprintln(os.Stderr, "usage: driver run|replay|selftest <engine|file> [flags]")
		os.Exit(2)
	}
	mode, arg := os.Args[1], os.Args[2]
	// everything this process spawns uses the pinned offline toolchain
	os.Setenv("PATH", goBinDir+":"+os.Getenv("PATH"))
	for k, v := range map[string]string{"GOFLAGS": "-mod=mod", "GOPROXY": "off", "GOSUMDB": "off", "GOTOOLCHAIN": "local", "GOWORK": "off"} {
		os.Setenv(k, v)
	}
	fs := flag.NewFlagSet("driver", flag.ExitOnError)
	tier := fs.String("tier", envOr("VERIF_TIER", "quick"), "quick|thorough")
	seedS := fs.String("seed", envOr("VERIF_SEED", "1"), "batch seed")
	workers := fs.Int("workers", 0, "worker processes (default min(16, NumCPU))")
	budget := fs.Int("budget", 0, "search budget in seconds (default per engine and tier; VERIF_BUDGET_S)")
	verbose := fs.Bool("v", false, "verbose")
	fs.Parse(os.Args[3:])

	seed, err := strconv.ParseUint(*seedS, 10, 64)
	if err != nil {
		// accept negative / odd seeds by hashing
		var h uint64 = 1469598103934665603
		for _, c := range []byte(*seedS) {
			h = (h ^ uint64(c)) * 1099511628211
		}
		seed = h
	}
	exe, _ := os.Executable()
	verifDir := envOr("VERIF_DIR", filepath.Dir(filepath.Dir(exe)))
	if _, err := os.Stat(filepath.Join(verifDir, "harness")); err != nil {
		verifDir = "/verif"
	}
	cfg := &config{
		verifDir: verifDir,
		outDir:   envOr("VERIF_OUT", verifDir),
		repo:     envOr("VERIF_REPO", "/repo"),
		tier:     *tier,
		seed:     seed,
		workers:  *workers,
		verbose:  *verbose,
		race:     os.Getenv("VERIF_RACE") != "0", // lssim also builds a -race worker for one slice of the budget (VERIF_RACE=0 turns it off)
	}
	if cfg.tier != "quick" && cfg.tier != "thorough" {
		die2("unknown tier %q", cfg.tier)
	}
	if cfg.workers <= 0 {
		cfg.workers = runtime.NumCPU()
		if cfg.workers > 16 {
			cfg.workers = 16
		}
		if v, err := strconv.Atoi(os.Getenv("VERIF_WORKERS")); err == nil && v > 0 {
			cfg.workers = v
		}
	}
	if *budget == 0 {
		if v, err := strconv.Atoi(os.Getenv("VERIF_BUDGET_S")); err == nil && v > 0 {
			*budget = v
		}
	}
	cfg.budget = time.Duration(*budget) * time.Second

	scratch, err := os.MkdirTemp("/var/tmp", "verif.")
	if err != nil {
		die2("scratch dir: %v", err)
	}
	cfg.scratch = scratch
	cleanups = append(cleanups, func() { os.RemoveAll(scratch) })
	sig := make(chan os.Signal, 1)
	signal.Notify(sig, syscall.SIGINT, syscall.SIGTERM)
	go func() {
		<-sig
		killAll()
		cleanup()
		os.Exit(2)
	}()

	code := 2
	switch mode {
	case "run":
		spec := engines[arg]
		if spec == nil {
			die2("unknown engine %q", arg)
		}
		code = runCheck(cfg, spec)
	case "replay":
		code = runReplay(cfg, arg)
	case "compose":
		// development aid: write composed grammars to the directory given as argument
		pool, descs, err := composeDetPool(cfg, 40)
		if err != nil {
			die2("%v", err)
		}
		os.MkdirAll(arg, 0o755)
		for _, p := range pool {
			b, _ := os.ReadFile(p.Path)
			os.WriteFile(filepath.Join(arg, filepath.Base(p.Path)), b, 0o644)
			fmt.Println(filepath.Base(p.Path), descs[p.ID])
		}
		code = 0
	case "sites":
		r, err := rewriteDeterminismSeams(cfg.repo)
		if err != nil {
			die2("%v", err)
		}
		for _, st := range r.sites {
			fmt.Printf("%-34s %-12s %s\n", st.ID, st.Kind, st.Key)
		}
		for _, u := range r.unowned {
			fmt.Println("UNOWNED", u)
		}
		code = 0
	case "selftest":
		spec := engines[arg]
		if spec == nil {
			die2("unknown engine %q", arg)
		}
		code = runSelftest(cfg, spec)
	default:
		fmt.Fprintln(os.Stderr, "unknown mode", mode)
	}
	killAll()
	cleanup()
	os.Exit(code)
}

func writeJSON(path string, v any) error {
	b, err := json.MarshalIndent(v, "", " ")
	if err != nil {
		return err
	}
	if err := os.MkdirAll(filepath.Dir(path), 0o755); err != nil {
		return err
	}
	tmp := path + ".tmp"
	if err := os.WriteFile(tmp, append(b, '\n'), 0o644); err != nil {
		return err
	}
	return os.Rename(tmp, path)
}
