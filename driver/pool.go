package main

import (
	"syscall"
	"bufio"
	"bytes"
	"encoding/json"
	"fmt"
	"io"
	"os"
	"os/exec"
	"regexp"
	"strconv"
	"strings"
	"sync"
	"time"

	"verif/harness/sim"
)

// runWatchdog is the default bound on one simulated run (engines may set their own).
const runWatchdog = 90 * time.Second

var (
	procMu sync.Mutex
	procs  = map[*exec.Cmd]bool{}
)

func track(c *exec.Cmd) {
	procMu.Lock()
	procs[c] = true
	procMu.Unlock()
}

func untrack(c *exec.Cmd) {
	procMu.Lock()
	delete(procs, c)
	procMu.Unlock()
}

func killAll() {
	procMu.Lock()
	defer procMu.Unlock()
	for c := range procs {
		if c.Process != nil {
			killTree(c)
		}
	}
}

// failure is a run that violated an oracle or killed its worker.
type failure struct {
	Seed   uint64
	Run    uint64
	Res    *sim.Result
	Crash  bool
	Stderr string
	Alt    bool // found by the alternative (-race) worker
}

func (f *failure) key() string {
	return f.Res.Violation.Invariant + "|" + f.Res.Violation.Signature
}

type runCtx struct {
	replaysAllClean bool // set by minimise: every replay so far completed without a violation
	cfg    *config
	spec   *engineSpec
	worker []string
	env    []string
	info   map[string]any
	// alternative worker (the -race build), used for one slice of a thorough run
	altWorker []string
	useAlt    bool

	mu       sync.Mutex
	runs     int
	nontriv  int
	steps    int64
	faultRun int
	faults   map[string]int
	probes   map[string]int
	skipped  map[string]int
	scheds   map[uint64]struct{}
	states   map[uint64]struct{}
	samples  []any
	failures []*failure
	crashes  int
	seeds    []uint64
}

func newRunCtx(cfg *config, spec *engineSpec) *runCtx {
	return &runCtx{cfg: cfg, spec: spec, faults: map[string]int{}, probes: map[string]int{}, skipped: map[string]int{},
		scheds: map[uint64]struct{}{}, states: map[uint64]struct{}{}}
}

func (rc *runCtx) merge(st *sim.Stat) {
	rc.mu.Lock()
	defer rc.mu.Unlock()
	rc.runs += st.Runs
	rc.nontriv += st.NonTriv
	rc.steps += st.Steps
	rc.faultRun += st.FaultRun
	for k, v := range st.Faults {
		rc.faults[k] += v
	}
	for k, v := range st.Probes {
		if strings.HasPrefix(k, "max-") {
			if v > rc.probes[k] {
				rc.probes[k] = v
			}
			continue
		}
		rc.probes[k] += v
	}
	for k, v := range st.Skipped {
		rc.skipped[k] += v
	}
	for _, s := range st.Scheds {
		rc.scheds[s] = struct{}{}
	}
	for _, s := range st.States {
		rc.states[s] = struct{}{}
	}
	for _, s := range st.Samples {
		if len(rc.samples) < 6 {
			rc.samples = append(rc.samples, s)
		}
	}
}

func (rc *runCtx) addFailure(f *failure) {
	rc.mu.Lock()
	defer rc.mu.Unlock()
	f.Alt = rc.useAlt
	if f.Res != nil && f.Res.Violation != nil && strings.HasSuffix(f.Res.Violation.Invariant, ".ignored-race") {
		rc.skipped["race report not attributable to the code under test"]++
		return
	}
	if f.Crash {
		rc.crashes++
		rc.runs++ // the run that killed its worker never made it into a STAT record
	}
	if len(rc.failures) < 400 {
		rc.failures = append(rc.failures, f)
	}
}

func (rc *runCtx) command(args ...string) *exec.Cmd {
	w := rc.worker
	if rc.useAlt && rc.altWorker != nil {
		w = rc.altWorker
	}
	all := append(append([]string{}, w[1:]...), args...)
	cmd := exec.Command(w[0], all...)
	cmd.Env = append(os.Environ(), rc.env...)
	cmd.Env = append(cmd.Env, "GORACE=halt_on_error=1")
	cmd.Dir = rc.cfg.scratch
	// own process group: killing a worker takes the children it started with it, and Wait
	// does not block on pipes a grandchild still holds
	cmd.SysProcAttr = &syscall.SysProcAttr{Setpgid: true}
	cmd.WaitDelay = 5 * time.Second
	return cmd
}

// killTree kills a worker and every process it started.
func killTree(cmd *exec.Cmd) {
	if cmd == nil || cmd.Process == nil {
		return
	}
	if cmd.SysProcAttr != nil && cmd.SysProcAttr.Setpgid {
		syscall.Kill(-cmd.Process.Pid, syscall.SIGKILL)
	}
	cmd.Process.Kill()
}

var (
	panicRe = regexp.MustCompile(`(?m)^(panic: .*|fatal error: .*|.*\[recovered\].*)$`)
	frameRe = regexp.MustCompile(`(?m)^(github\.com/inspirer/textmapper/\S+|main\.\S+)\((?:[^*\s]|$)`)
)

// crashSignature reduces a dying worker's stderr to "what, where": the panic message
// (numbers masked) and the first frame that belongs to the module under test.
func crashSignature(stderr string) string {
	msg := "worker died"
	if m := panicRe.FindString(stderr); m != "" {
		msg = m
	}
	msg = regexp.MustCompile(`0x[0-9a-f]+|\d+`).ReplaceAllString(msg, "N")
	if len(msg) > 160 {
		msg = msg[:160]
	}
	where := ""
	for _, m := range frameRe.FindAllStringSubmatch(stderr, -1) {
		if strings.Contains(m[1], "/zzverif/") || strings.HasPrefix(m[1], "main.zz") {
			continue
		}
		where = m[1]
		break
	}
	return msg + " @ " + where
}

var raceFrameRe = regexp.MustCompile(`(?m)^\s+(/\S+\.go):\d+`)

// raceSignature inspects a race detector report. It returns ok=false unless at least one
// of the two access stacks of the first report contains a frame in the module under test
// (not in the harness, not in a third-party module): the simulator's own park/release
// channels and the libraries' internals are not what the property is about.
func raceSignature(stderr, repo string) (sig string, ok bool) {
	i := strings.Index(stderr, "WARNING: DATA RACE")
	if i < 0 {
		return "", false
	}
	rep := stderr[i:]
	if j := strings.Index(rep, "=================="); j > 0 {
		rep = rep[:j]
	}
	parts := strings.SplitN(rep, "\n\n", 3)
	if len(parts) < 2 {
		return "", false
	}
	var sites []string
	for _, stack := range parts[:2] {
		found := ""
		lines := strings.Split(stack, "\n")
		for k, l := range lines {
			m := raceFrameRe.FindStringSubmatch(l)
			if m == nil || !strings.HasPrefix(m[1], repo+"/") || strings.Contains(m[1], "/zzverif/") || strings.Contains(m[1], "zz_lssim") {
				continue
			}
			fn := ""
			if k > 0 {
				fn = strings.TrimSpace(lines[k-1])
				if p := strings.IndexByte(fn, '('); p > 0 && strings.HasSuffix(fn, ")") {
					fn = fn[:strings.LastIndexByte(fn, '(')]
				}
			}
			found = fn
			break
		}
		if found == "" {
			found = "(outside the module under test)"
		}
		sites = append(sites, found)
	}
	// at least one of the two accesses must be made by code of the module under test
	// (the other one may be a library reading memory that code handed out, e.g. the JSON
	// encoder marshalling a response while the next handler reuses its buffer)
	if strings.HasPrefix(sites[0], "(outside") && strings.HasPrefix(sites[1], "(outside") {
		return "", false
	}
	return "data race: " + sites[0] + " / " + sites[1], true
}

func crashResult(prop string, run uint64, stderr string, why string) *sim.Result {
	if strings.Contains(stderr, "WARNING: DATA RACE") {
		repo := envOr("VERIF_REPO", "/repo")
		if sig, ok := raceSignature(stderr, repo); ok {
			return &sim.Result{Run: run, Violation: &sim.Violation{Invariant: prop + ".race", Signature: sig, Detail: why + "\n" + tail(stderr, 60)}}
		}
		return &sim.Result{Run: run, Skipped: "race report not attributable to the code under test", Violation: &sim.Violation{Invariant: prop + ".ignored-race", Signature: "harness-or-library", Detail: tail(stderr, 30)}}
	}
	return &sim.Result{Run: run, Violation: &sim.Violation{
		Invariant: prop + ".crash",
		Signature: crashSignature(stderr),
		Detail:    why + "\n" + tail(stderr, 40),
	}}
}

// search runs one seeded batch on cfg.workers processes until the deadline.
func (rc *runCtx) search(seed uint64, deadline time.Time, perWorkerCount uint64) {
	rc.seeds = append(rc.seeds, seed)
	var wg sync.WaitGroup
	n := rc.cfg.workers
	for w := 0; w < n; w++ {
		wg.Add(1)
		go func(w int) {
			defer wg.Done()
			first := uint64(w)
			remaining := perWorkerCount
			for restarts := 0; restarts < 25; restarts++ {
				if time.Now().After(deadline) {
					return
				}
				procsN := []int{1, 4, 16}[w%3]
				args := []string{"-seed", strconv.FormatUint(seed, 10), "-first", strconv.FormatUint(first, 10),
					"-stride", strconv.Itoa(n), "-deadline", strconv.FormatInt(deadline.Unix(), 10), "-procs", strconv.Itoa(procsN)}
				if perWorkerCount > 0 {
					args = append(args, "-count", strconv.FormatUint(remaining, 10))
				}
				if w == 0 && restarts == 0 {
					args = append(args, "-samples", "4")
				}
				cmd := rc.command(args...)
				var stderr bytes.Buffer
				cmd.Stderr = &limitedWriter{buf: &stderr, max: 1 << 20}
				out, _ := cmd.StdoutPipe()
				if err := cmd.Start(); err != nil {
					rc.addFailure(&failure{Seed: seed, Run: first, Crash: true, Res: crashResult(rc.spec.property, first, err.Error(), "cannot start worker")})
					return
				}
				track(cmd)
				sc := bufio.NewScanner(out)
				sc.Buffer(make([]byte, 1<<20), 1<<28)
				var last uint64
				began, done := false, false
				var ran uint64
				// watchdog: a worker that reports nothing for a long time is stuck inside a run
				// (a deadlock the simulator cannot see through, e.g. goroutines blocked on a mutex)
				hung := false
				progress := make(chan struct{}, 1)
				stopDog := make(chan struct{})
				go func() {
					limit := rc.spec.dog()
					t := time.NewTimer(limit)
					defer t.Stop()
					for {
						select {
						case <-progress:
							if !t.Stop() {
								select {
								case <-t.C:
								default:
								}
							}
							t.Reset(limit)
						case <-t.C:
							hung = true
							killTree(cmd)
							return
						case <-stopDog:
							return
						}
					}
				}()
				for sc.Scan() {
					line := sc.Text()
					select {
					case progress <- struct{}{}:
					default:
					}
					switch {
					case strings.HasPrefix(line, "BEGIN "):
						last, _ = strconv.ParseUint(line[6:], 10, 64)
						began = true
						ran++
					case strings.HasPrefix(line, "FAIL "):
						rest := line[5:]
						sp := strings.IndexByte(rest, ' ')
						var res sim.Result
						if err := json.Unmarshal([]byte(rest[sp+1:]), &res); err == nil {
							rc.addFailure(&failure{Seed: seed, Run: res.Run, Res: &res})
						}
					case strings.HasPrefix(line, "STAT "):
						var st sim.Stat
						if err := json.Unmarshal([]byte(line[5:]), &st); err == nil {
							rc.merge(&st)
						}
					case strings.HasPrefix(line, "DONE "):
						done = true
					}
				}
				// a watchdog for a worker that hangs after the deadline
				waitDone := make(chan struct{})
				go func() {
					select {
					case <-waitDone:
					case <-time.After(120 * time.Second):
						killTree(cmd)
					}
				}()
				err := cmd.Wait()
				close(waitDone)
				close(stopDog)
				untrack(cmd)
				if done && err == nil {
					return
				}
				if !began {
					rc.addFailure(&failure{Seed: seed, Run: first, Crash: true,
						Res: crashResult(rc.spec.property, first, stderr.String(), fmt.Sprintf("worker exited before its first run: %v", err))})
					return
				}
				// the run in flight killed the worker (or hung it)
				cr := crashResult(rc.spec.property, last, stderr.String(), fmt.Sprintf("worker died during run %d (seed %d): %v", last, seed, err))
				if hung {
					cr = &sim.Result{Run: last, Violation: &sim.Violation{Invariant: rc.spec.property + ".hang", Signature: "run exceeded watchdog",
						Detail: fmt.Sprintf("run %d (seed %d) made no progress for %v: the code under test is stuck (deadlock or livelock)", last, seed, rc.spec.dog())}}
				}
				rc.addFailure(&failure{Seed: seed, Run: last, Crash: true, Stderr: stderr.String(), Res: cr})
				first = last + uint64(n)
				if perWorkerCount > 0 {
					if ran >= remaining {
						return
					}
					remaining -= ran
				}
			}
		}(w)
	}
	wg.Wait()
}

type limitedWriter struct {
	buf *bytes.Buffer
	max int
}

func (l *limitedWriter) Write(p []byte) (int, error) {
	if l.buf.Len() < l.max {
		l.buf.Write(p)
	} else if l.buf.Len() < 2*l.max {
		// keep the tail too: panics come last
		l.buf.Write(p)
	}
	return len(p), nil
}

// ---------------------------------------------------------------------------------
// serve-mode workers (replay / shrinking / determinism self-test)

type server struct {
	rc     *runCtx
	procsN int
	cmd    *exec.Cmd
	in     io.WriteCloser
	out    *bufio.Reader
	stderr *bytes.Buffer
	nextID int
}

func (rc *runCtx) newServer(procsN int) *server { return &server{rc: rc, procsN: procsN} }

func (s *server) start() error {
	s.cmd = s.rc.command("-serve", "-procs", strconv.Itoa(s.procsN))
	s.stderr = &bytes.Buffer{}
	s.cmd.Stderr = &limitedWriter{buf: s.stderr, max: 1 << 20}
	var err error
	s.in, err = s.cmd.StdinPipe()
	if err != nil {
		return err
	}
	o, err := s.cmd.StdoutPipe()
	if err != nil {
		return err
	}
	s.out = bufio.NewReaderSize(o, 1<<20)
	if err := s.cmd.Start(); err != nil {
		return err
	}
	track(s.cmd)
	return nil
}

func (s *server) stop() {
	if s.cmd == nil {
		return
	}
	s.in.Close()
	killTree(s.cmd)
	s.cmd.Wait()
	untrack(s.cmd)
	s.cmd = nil
}

type evalResult struct {
	Res     *sim.Result
	Crashed bool
	Stderr  string
}

// eval replays one tape. A worker that dies or does not answer within the timeout
// yields a synthetic crash result.
func (s *server) eval(tape []uint64, withLog bool, timeout time.Duration) *evalResult {
	if s.cmd == nil {
		if err := s.start(); err != nil {
			return &evalResult{Crashed: true, Stderr: err.Error(), Res: crashResult(s.rc.spec.property, 0, err.Error(), "cannot start worker")}
		}
	}
	s.nextID++
	req, _ := json.Marshal(&sim.Request{ID: s.nextID, Tape: tape, Log: withLog})
	type answer struct {
		res *sim.Result
		err error
	}
	ch := make(chan answer, 1)
	go func() {
		if _, err := s.in.Write(append(req, '\n')); err != nil {
			ch <- answer{nil, err}
			return
		}
		for {
			line, err := s.out.ReadString('\n')
			if strings.HasPrefix(line, "END ") {
				rest := line[4:]
				sp := strings.IndexByte(rest, ' ')
				var res sim.Result
				if jerr := json.Unmarshal([]byte(rest[sp+1:]), &res); jerr != nil {
					ch <- answer{nil, jerr}
					return
				}
				ch <- answer{&res, nil}
				return
			}
			if err != nil {
				ch <- answer{nil, err}
				return
			}
		}
	}()
	var a answer
	why := "worker died while replaying"
	select {
	case a = <-ch:
	case <-time.After(timeout):
		why = fmt.Sprintf("worker did not finish the run within %v (hang)", timeout)
		a = answer{nil, fmt.Errorf("timeout")}
	}
	if a.err != nil {
		killTree(s.cmd)
		s.cmd.Wait()
		untrack(s.cmd)
		se := s.stderr.String()
		s.cmd = nil
		r := crashResult(s.rc.spec.property, 0, se, why)
		if strings.Contains(why, "hang") {
			r.Violation.Invariant = s.rc.spec.property + ".hang"
			r.Violation.Signature = "run exceeded watchdog"
		}
		return &evalResult{Crashed: true, Stderr: se, Res: r}
	}
	return &evalResult{Res: a.res}
}

// evalMany evaluates tapes in parallel on a pool of servers.
func (rc *runCtx) evalMany(pool []*server, tapes [][]uint64, timeout time.Duration) []*evalResult {
	out := make([]*evalResult, len(tapes))
	var wg sync.WaitGroup
	next := make(chan int, len(tapes))
	for i := range tapes {
		next <- i
	}
	close(next)
	for _, s := range pool {
		wg.Add(1)
		go func(s *server) {
			defer wg.Done()
			for i := range next {
				out[i] = s.eval(tapes[i], false, timeout)
			}
		}(s)
	}
	wg.Wait()
	return out
}

// rawTape reproduces, outside the worker, the raw PRNG stream of search run (seed, run):
// replaying it yields exactly that run (Draw reduces modulo its bound in both modes).
func rawTape(seed, run uint64, n int) []uint64 {
	src := sim.NewSearch(seed, run)
	t := make([]uint64, n)
	for i := range t {
		t[i] = src.Raw()
	}
	return t
}
