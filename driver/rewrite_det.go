package main

import (
	"bytes"
	"fmt"
	"go/ast"
	"go/format"
	"go/token"
	"go/types"
	"os"
	"path/filepath"
	"sort"
	"strings"

	"golang.org/x/tools/go/ast/astutil"
	"golang.org/x/tools/go/packages"
)

const zzsimPath = "github.com/inspirer/textmapper/zzverif/zzsim"

type detSite struct {
	ID   string `json:"id"`   // file:line relative to the repo
	Kind string `json:"kind"` // "map-range", "clock", "maps.Keys", ...
	Key  string `json:"key,omitempty"`
}

type detRewrite struct {
	files     map[string][]byte // repo path -> rewritten source
	sites     []detSite
	unowned   []string // sources of nondeterminism the simulator cannot own (go statements, math/rand, ...)
	mapSites  int
	clockSite int
}

// rewriteDeterminismSeams loads every non-test package of the module with full type
// information and rewrites (in memory) each place where the environment, not the
// program, decides something on the compile/generate path:
//
//	for k, v := range m         (m of map type)  ->  for k, v := range zzsim.MapSeq(m, "site")
//	time.Now() / time.Since(t)                   ->  zzsim.Now() / zzsim.Since(t)
//	maps.Keys/Values/All(m)                      ->  zzsim.MapKeys/MapValues/MapSeq
//
// go statements, non-poll selects, math/rand, os.Getpid/Hostname/Getenv, raw directory
// enumeration ((*os.File).ReadDir) are reported as
// unowned sources.
func rewriteDeterminismSeams(repo string) (*detRewrite, error) {
	cfg := &packages.Config{
		Mode: packages.NeedName | packages.NeedFiles | packages.NeedCompiledGoFiles | packages.NeedSyntax | packages.NeedTypes | packages.NeedTypesInfo | packages.NeedImports | packages.NeedDeps,
		Dir:  repo,
		Env:  goEnv(),
	}
	pkgs, err := packages.Load(cfg, "./...")
	if err != nil {
		return nil, err
	}
	out := &detRewrite{files: map[string][]byte{}}
	for _, p := range pkgs {
		if len(p.Errors) > 0 {
			return nil, fmt.Errorf("package %s does not type-check: %v", p.PkgPath, p.Errors[0])
		}
		if strings.Contains(p.PkgPath, "/zzverif/") || strings.HasSuffix(p.PkgPath, "/cmd/textmapper") && false {
			continue
		}
		for i, f := range p.Syntax {
			fname := p.CompiledGoFiles[i]
			if strings.HasSuffix(fname, "_test.go") || !strings.HasPrefix(fname, repo+"/") {
				continue
			}
			rel := strings.TrimPrefix(fname, repo+"/")
			changed := false
			pos := func(n ast.Node) string {
				return fmt.Sprintf("%s:%d", rel, p.Fset.Position(n.Pos()).Line)
			}
			isPkgCall := func(call *ast.CallExpr, pkg string, names ...string) string {
				sel, ok := call.Fun.(*ast.SelectorExpr)
				if !ok {
					return ""
				}
				id, ok := sel.X.(*ast.Ident)
				if !ok {
					return ""
				}
				pn, ok := p.TypesInfo.Uses[id].(*types.PkgName)
				if !ok || pn.Imported().Path() != pkg {
					return ""
				}
				for _, n := range names {
					if sel.Sel.Name == n {
						return n
					}
				}
				if len(names) == 0 {
					return sel.Sel.Name
				}
				return ""
			}
			astutil.Apply(f, func(c *astutil.Cursor) bool {
				switch n := c.Node().(type) {
				case *ast.RangeStmt:
					t := p.TypesInfo.TypeOf(n.X)
					if t == nil {
						return true
					}
					if mt, ok := t.Underlying().(*types.Map); ok {
						site := pos(n)
						n.X = &ast.CallExpr{
							Fun:  &ast.SelectorExpr{X: ast.NewIdent("zzsim"), Sel: ast.NewIdent("MapSeq")},
							Args: []ast.Expr{n.X, &ast.BasicLit{Kind: token.STRING, Value: fmt.Sprintf("%q", site)}},
						}
						out.sites = append(out.sites, detSite{ID: site, Kind: "map-range", Key: mt.Key().String()})
						out.mapSites++
						changed = true
					}
				case *ast.CallExpr:
					if name := isPkgCall(n, "time", "Now", "Since"); name != "" {
						site := pos(n)
						n.Fun = &ast.SelectorExpr{X: ast.NewIdent("zzsim"), Sel: ast.NewIdent(name)}
						out.sites = append(out.sites, detSite{ID: site, Kind: "clock:" + name})
						out.clockSite++
						changed = true
					}
					if name := isPkgCall(n, "maps", "Keys", "Values", "All"); name != "" {
						site := pos(n)
						fn := map[string]string{"Keys": "MapKeys", "Values": "MapValues", "All": "MapSeq"}[name]
						n.Fun = &ast.SelectorExpr{X: ast.NewIdent("zzsim"), Sel: ast.NewIdent(fn)}
						n.Args = append(n.Args, &ast.BasicLit{Kind: token.STRING, Value: fmt.Sprintf("%q", site)})
						out.sites = append(out.sites, detSite{ID: site, Kind: "maps." + name})
						out.mapSites++
						changed = true
					}
					if name := isPkgCall(n, "os", "Getpid", "Hostname", "Getenv", "Environ", "Getppid"); name != "" && !strings.HasPrefix(rel, "cmd/") {
						out.unowned = append(out.unowned, pos(n)+": os."+name)
					}
					if sel, ok := n.Fun.(*ast.SelectorExpr); ok {
						if s := p.TypesInfo.Selections[sel]; s != nil {
							recv := s.Recv().String()
							if (sel.Sel.Name == "MapRange" || sel.Sel.Name == "MapKeys") && strings.Contains(recv, "reflect.Value") && !strings.HasPrefix(rel, "util/dump/") {
								out.unowned = append(out.unowned, pos(n)+": reflect map walk")
							}
							if (sel.Sel.Name == "ReadDir" || sel.Sel.Name == "Readdir" || sel.Sel.Name == "Readdirnames") && strings.Contains(recv, "os.File") && !strings.HasPrefix(rel, "cmd/") {
								// (*os.File).ReadDir returns entries in the order the file system keeps
								// them (os.ReadDir and filepath.Glob sort): the harness cannot permute that
								out.unowned = append(out.unowned, pos(n)+": raw directory enumeration order ((*os.File)."+sel.Sel.Name+")")
							}
							if sel.Sel.Name == "Range" && strings.Contains(recv, "sync.Map") {
								out.unowned = append(out.unowned, pos(n)+": sync.Map.Range")
							}
						}
					}
				case *ast.GoStmt:
					if !strings.HasPrefix(rel, "cmd/") && !strings.HasPrefix(rel, "ls/") {
						out.unowned = append(out.unowned, pos(n)+": go statement")
					}
				case *ast.SelectStmt:
					// the generated parsers' context poll is `select { case <-ctx.Done(): ...; default: }`
					poll := len(n.Body.List) == 2
					if !poll && !strings.HasPrefix(rel, "cmd/") && !strings.HasPrefix(rel, "ls/") {
						out.unowned = append(out.unowned, pos(n)+": select")
					}
				case *ast.ImportSpec:
					if n.Path.Value == `"math/rand"` || n.Path.Value == `"math/rand/v2"` || n.Path.Value == `"crypto/rand"` {
						out.unowned = append(out.unowned, pos(n)+": import "+n.Path.Value)
					}
				}
				return true
			}, nil)
			if !changed {
				continue
			}
			astutil.AddImport(p.Fset, f, zzsimPath)
			// drop imports that became unused (time, maps)
			for _, imp := range []string{"time", "maps"} {
				if !astutil.UsesImport(f, imp) {
					astutil.DeleteImport(p.Fset, f, imp)
				}
			}
			var buf bytes.Buffer
			if err := format.Node(&buf, p.Fset, f); err != nil {
				return nil, fmt.Errorf("%s: %v", rel, err)
			}
			out.files[fname] = buf.Bytes()
		}
	}
	sort.Slice(out.sites, func(i, j int) bool { return out.sites[i].ID < out.sites[j].ID })
	sort.Strings(out.unowned)
	return out, nil
}

func (r *detRewrite) addTo(ov *overlay, scratch string) error {
	dir := filepath.Join(scratch, "detrewrite")
	if err := os.MkdirAll(dir, 0o755); err != nil {
		return err
	}
	i := 0
	for _, path := range sortedKeys(r.files) {
		dst := filepath.Join(dir, fmt.Sprintf("%03d_%s", i, filepath.Base(path)))
		i++
		if err := os.WriteFile(dst, r.files[path], 0o644); err != nil {
			return err
		}
		ov.Replace[path] = dst
	}
	return nil
}
