package main

import (
	"time"

	"verif/harness/sim"
)

// shrinker minimises a failing tape. A candidate is accepted only when it fails with the
// same invariant and signature. Every attempt is a replay in a child process (a failing
// run may kill its process), evaluated in parallel on a pool of serve-mode workers.
type shrinker struct {
	rc       *runCtx
	pool     []*server
	want     string // invariant|signature
	best     []uint64
	bestRes  *sim.Result
	attempts int
	maxTries int
	deadline time.Time
	timeout  time.Duration
}

func vkey(r *sim.Result) string {
	if r == nil || r.Violation == nil {
		return ""
	}
	return r.Violation.Invariant + "|" + r.Violation.Signature
}

func (s *shrinker) exhausted() bool {
	return s.attempts >= s.maxTries || time.Now().After(s.deadline)
}

// try evaluates candidates in order of preference and adopts the first that still fails.
func (s *shrinker) try(cands [][]uint64) bool {
	if len(cands) == 0 || s.exhausted() {
		return false
	}
	s.attempts += len(cands)
	results := s.rc.evalMany(s.pool, cands, s.timeout)
	for i, r := range results {
		if vkey(r.Res) == s.want {
			t := cands[i]
			if !r.Crashed && r.Res.Tape != nil {
				t = trimTape(r.Res.Tape) // canonical: reduced values, exact length
			}
			s.best = t
			s.bestRes = r.Res
			return true
		}
	}
	return false
}

func trimTape(t []uint64) []uint64 {
	n := len(t)
	for n > 0 && t[n-1] == 0 {
		n--
	}
	return append([]uint64{}, t[:n]...)
}

func without(t []uint64, i, n int) []uint64 {
	out := make([]uint64, 0, len(t)-n)
	out = append(out, t[:i]...)
	return append(out, t[i+n:]...)
}

func (s *shrinker) run() {
	par := len(s.pool)
	// 1. truncation (a tape that ends early continues with zeros): binary search.
	lo, hi := 0, len(s.best)
	for lo < hi && !s.exhausted() {
		mid := (lo + hi) / 2
		if s.try([][]uint64{append([]uint64{}, s.best[:mid]...)}) {
			hi = len(s.best)
			if hi > mid {
				hi = mid
			}
		} else {
			lo = mid + 1
		}
	}
	// 2. delete blocks, 3. zero blocks, 4. lower values — repeated to a fixpoint.
	for improved := true; improved && !s.exhausted(); {
		improved = false
		for _, bs := range []int{16, 8, 4, 2, 1} {
			for i := len(s.best) - bs; i >= 0 && !s.exhausted(); {
				var cands [][]uint64
				var at []int
				for j := i; j >= 0 && len(cands) < par; j -= bs {
					cands = append(cands, without(s.best, j, bs))
					at = append(at, j)
				}
				before := len(s.best)
				if s.try(cands) {
					improved = true
					if len(s.best) >= before { // canonicalisation may not shorten
						i -= bs
					}
					if i > len(s.best)-bs {
						i = len(s.best) - bs
					}
				} else {
					i = at[len(at)-1] - bs
				}
			}
		}
		for _, bs := range []int{8, 1} {
			for i := 0; i+bs <= len(s.best) && !s.exhausted(); {
				var cands [][]uint64
				var at []int
				for j := i; j+bs <= len(s.best) && len(cands) < par; j += bs {
					zero := true
					for _, v := range s.best[j : j+bs] {
						if v != 0 {
							zero = false
						}
					}
					if zero {
						continue
					}
					c := append([]uint64{}, s.best...)
					for k := j; k < j+bs; k++ {
						c[k] = 0
					}
					cands = append(cands, c)
					at = append(at, j)
				}
				if len(cands) == 0 {
					break
				}
				if s.try(cands) {
					improved = true
				}
				i = at[len(at)-1] + bs
			}
		}
		for i := 0; i < len(s.best) && !s.exhausted(); i++ {
			v := s.best[i]
			if v <= 1 {
				continue
			}
			var cands [][]uint64
			for _, nv := range []uint64{1, v / 2, v - 1} {
				if nv < v {
					c := append([]uint64{}, s.best...)
					c[i] = nv
					cands = append(cands, c)
				}
			}
			if s.try(cands) {
				improved = true
			}
		}
	}
}
