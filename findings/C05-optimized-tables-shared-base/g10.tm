language g10(go);

lang = "g10"
package = "github.com/inspirer/textmapper/zz/g10"
eventBased = true
cancellable = true
optimizeTables = true
recursiveLookaheads = true
tokenLine = true

:: lexer

ws: /[ \t\r\n]+/ (space)
id: /[a-zA-Z_][a-zA-Z_0-9]*/
num: /[0-9]+/
'(': /\(/
')': /\)/
'[': /\[/
']': /\]/
',': /,/
';': /;/
'=>': /=>/

:: parser

%input File;

File -> File: Item+ ;

Item -> Item:
    (?= IsTriple) '(' num ',' num ',' num ')' ';'                     -> Triple
  | (?= !IsTriple & IsPair) '(' num ',' num ')' ';'                   -> Pair
  | (?= !IsTriple & !IsPair & IsArrow) '(' Params ')' '=>' id ';'     -> Arrow
  | (?= !IsTriple & !IsPair & !IsArrow) '(' Nested ')' ';'            -> Paren
  | id ';'                                                            -> Name
;

Params -> Params: (id separator ',')* ;

Nested -> Nested:
    id
  | (?= IsArrow) '(' Params ')' '=>' id
  | (?= !IsArrow) '(' Nested ')'
  | '[' (Nested separator ',')+ ']'
;

IsPair: '(' num ',' ;
IsTriple: '(' num ',' num ',' ;
IsArrow: '(' Params ')' '=>' ;
