// cancelsim: deterministic simulation of "a second party cancels the context at an
// arbitrary instant of a parse" (property C29).
//
// The parser under test is real code. The simulator owns the context.Context (simCtx),
// the Listener and the ErrorHandler: every call the parser makes into one of them is a
// tick of simulated time, and the canceller fires at a tape-chosen tick.
package main

import (
	"context"
	"errors"
	"fmt"
	"os"
	"runtime"
	"runtime/debug"
	"sort"
	"strconv"
	"strings"
	"time"

	"github.com/inspirer/textmapper/zzverif/sim"
)

// B is the bound of the "stops within a bounded number of shifted tokens" clause.
// It is deliberately not the implementation's poll period: any constant independent
// of the input length satisfies the property; B only has to be generous enough not to
// convict a re-tuned period, and small enough that "never polls" is convicted on the
// inputs generated here (which reach 10*B tokens).
var B = 4096 // ZZ_CANCELSIM_B overrides it for experiments (see main)

// ---------------------------------------------------------------------------------
// simulated context

type errKind int

const (
	errCanceled errKind = iota
	errDeadline
	errCustom
	errStd               // a real context.WithCancel, cancelled by the simulator
	errStdCause          // a real context.WithCancelCause: Err() is Canceled, Cause() is something else
	errStdChild          // a value-carrying child of a real cancellable context (cancellation arrives by propagation)
	errStdPast           // a real context.WithDeadline whose deadline has passed (fires only before the parse)
	errStdFutureDeadline // a real context.WithTimeout(1h), cancelled explicitly long before it expires
	numErrKinds
)

var errCauseValue = errors.New("zzverif: cancellation cause (not the context's error)")

var errCustomValue = errors.New("zzverif: custom cancellation cause")

type simCtx struct {
	kind    errKind
	done    chan struct{}
	err     error
	std     context.Context
	cancel  context.CancelFunc
	cancelC context.CancelCauseFunc
	fireAt  int // tick index at which the canceller fires; -1 never
	fired   bool
	nticks  int
	npolls  int
	record  bool
	kinds   []byte // reference run: kind of each tick
	rec     *recorder
	firedAt struct {
		kind     byte
		progress int // recorder.maxEnd when the canceller fired
		polls    int
	}
	errCalls int
}

func newSimCtx(kind errKind, fireAt int) *simCtx {
	c := &simCtx{kind: kind, fireAt: fireAt}
	switch kind {
	case errStd:
		c.std, c.cancel = context.WithCancel(context.Background())
	case errStdCause:
		c.std, c.cancelC = context.WithCancelCause(context.Background())
	case errStdChild:
		parent, cancel := context.WithCancel(context.Background())
		c.cancel = cancel
		type zzKey struct{}
		child, _ := context.WithCancel(context.WithValue(parent, zzKey{}, 1))
		c.std = child
	case errStdPast:
		c.std, c.cancel = context.WithDeadline(context.Background(), time.Unix(1, 0))
	case errStdFutureDeadline:
		c.std, c.cancel = context.WithTimeout(context.Background(), time.Hour)
	default:
		c.done = make(chan struct{})
	}
	return c
}

func (c *simCtx) fire(kind byte) {
	c.fired = true
	c.firedAt.kind = kind
	c.firedAt.polls = c.npolls
	if c.rec != nil {
		c.firedAt.progress = c.rec.maxEnd
	}
	switch c.kind {
	case errStd, errStdChild, errStdFutureDeadline:
		c.cancel()
		c.err = context.Canceled
	case errStdPast:
		c.err = context.DeadlineExceeded // already expired when it was created
	case errStdCause:
		c.cancelC(errCauseValue)
		c.err = context.Canceled
	case errCanceled:
		c.err = context.Canceled
		close(c.done)
	case errDeadline:
		c.err = context.DeadlineExceeded
		close(c.done)
	case errCustom:
		c.err = errCustomValue
		close(c.done)
	}
}

func (c *simCtx) tick(kind byte) {
	idx := c.nticks
	c.nticks++
	if c.record {
		c.kinds = append(c.kinds, kind)
	}
	if !c.fired && idx == c.fireAt {
		c.fire(kind)
	}
}

// inLookahead classifies the caller of Done(): a frame of a function whose name is
// or ends in "lookahead" (the generated sub-parser) means the poll is a lookahead poll.
func inLookahead() bool {
	var pcs [24]uintptr
	n := runtime.Callers(3, pcs[:])
	frames := runtime.CallersFrames(pcs[:n])
	for {
		f, more := frames.Next()
		name := f.Function
		if i := strings.LastIndexByte(name, '.'); i >= 0 {
			name = name[i+1:]
		}
		if name == "lookahead" {
			return true
		}
		if !more {
			return false
		}
	}
}

func (c *simCtx) Done() <-chan struct{} {
	c.npolls++
	k := byte('P')
	if inLookahead() {
		k = 'L'
	}
	c.tick(k)
	if c.std != nil {
		return c.std.Done()
	}
	return c.done
}

func (c *simCtx) Err() error {
	c.errCalls++
	if c.std != nil {
		return c.std.Err()
	}
	if c.fired {
		return c.err
	}
	return nil
}

func (c *simCtx) Deadline() (time.Time, bool) {
	if c.std != nil {
		return c.std.Deadline()
	}
	if c.kind == errDeadline {
		return farFuture, true // a deadline that is still far away when the canceller fires
	}
	return time.Time{}, false
}

var farFuture = time.Date(2200, 1, 1, 0, 0, 0, 0, time.UTC)

func (c *simCtx) Value(key any) any {
	if c.std != nil {
		return c.std.Value(key) // lets context.Cause find the underlying cancelCtx
	}
	return nil
}

// ---------------------------------------------------------------------------------
// recording listener / error handler

type event struct {
	kind     byte // 'E' listener event, 'H' error handler call
	t, flags int
	off, end int
}

// itemSpan is one top-level item of a generated input.
type itemSpan struct {
	off, end int
	toks     int
	intact   bool   // not damaged
	sig      uint64 // signature of the events an undamaged parse reports inside this item (0: unknown)
}

// evSig folds one event, relative to its item, into an item's event signature.
func evSig(acc uint64, t, flags, relOff, relEnd int) uint64 {
	h := acc*1099511628211 + 0x9e3779b97f4a7c15
	h ^= uint64(t)<<40 ^ uint64(flags)<<32 ^ uint64(relOff)<<16 ^ uint64(relEnd)
	return h * 0xbf58476d1ce4e5b9
}

type itemAcc struct {
	sig        uint64
	beforeFire bool // some event of the item was reported before the canceller fired
}

type recorder struct {
	ctx *simCtx
	// bounded-stop oracle: the items of the input (sorted by offset) and, per item, the
	// signature of the events reported inside it so far. An intact item whose events are
	// exactly those of an undamaged parse was parsed normally: all its tokens were shifted.
	items    []itemSpan
	acc      map[int]*itemAcc
	ref      []event // nil in the reference run
	ev       []event // filled in the reference run only
	n        int
	diverged int // index of first event differing from ref, -1 if none
	maxEnd   int
	errh     int
	stopAt   int // the error handler answers false on its stopAt-th call (0: never)
	// a second simulated caller: when this caller's yieldAt-th listener event arrives the
	// other caller runs (onYield), then this one resumes
	yieldAt int
	onYield func()
}

func (r *recorder) add(e event) {
	if r.ref == nil {
		r.ev = append(r.ev, e)
	} else if r.diverged < 0 {
		if r.n >= len(r.ref) || r.ref[r.n] != e {
			r.diverged = r.n
		}
	}
	r.n++
	if e.end > r.maxEnd {
		r.maxEnd = e.end
	}
	if r.items != nil && e.kind == 'E' {
		// the item containing this event, if any (events spanning several items are
		// parents of items and do not belong to one)
		i := sort.Search(len(r.items), func(i int) bool { return r.items[i].end >= e.end }) // first item ending at or after
		if i < len(r.items) && r.items[i].off <= e.off && e.end <= r.items[i].end {
			a := r.acc[i]
			if a == nil {
				if r.acc == nil {
					r.acc = map[int]*itemAcc{}
				}
				a = &itemAcc{}
				r.acc[i] = a
			}
			a.sig = evSig(a.sig, e.t, e.flags, e.off-r.items[i].off, e.end-r.items[i].off)
			if !r.ctx.fired {
				a.beforeFire = true
			}
		}
	}
}

// shiftedAfterFire returns a lower bound of the tokens shifted after the canceller
// fired: the tokens of the intact items that were parsed entirely after that instant
// with exactly the events of an undamaged parse (the first two such items are left out:
// tokens are shifted before the item they belong to is reported).
func (r *recorder) shiftedAfterFire() (items, tokens int) {
	idx := make([]int, 0, len(r.acc))
	for i, a := range r.acc {
		it := r.items[i]
		if it.intact && it.sig != 0 && a.sig == it.sig && !a.beforeFire {
			idx = append(idx, i)
		}
	}
	sort.Ints(idx)
	for k, i := range idx {
		if k >= 2 {
			tokens += r.items[i].toks
		}
	}
	return len(idx), tokens
}

func (r *recorder) Event(t, flags, off, end int) {
	if r.onYield != nil && r.n == r.yieldAt {
		f := r.onYield
		r.onYield = nil
		f()
	}
	r.ctx.tick('E')
	r.add(event{'E', t, flags, off, end})
}

func (r *recorder) ErrH(line, off, end int) bool {
	r.ctx.tick('H')
	r.errh++
	r.add(event{'H', line, 0, off, end})
	return !(r.stopAt > 0 && r.errh >= r.stopAt)
}

// ---------------------------------------------------------------------------------
// targets

// A Target is one public entry point of one cancellable parser.
type Target struct {
	Name string
	// Parse runs the real parser. It must route listener/error-handler callbacks to rec
	// (entry points that build an AST themselves route only the error handler) and
	// return a string rendering of the parse result (semantic value or tree).
	Parse func(ctx context.Context, input string, rec *recorder) (val string, err error)
	// NewSession, when set, returns a parse function bound to ONE set of parser / lexer /
	// token stream objects that is reused from call to call, the way a long-lived caller
	// reuses them. A parse after a cancelled parse must behave like any other parse.
	NewSession func() func(ctx context.Context, input string, rec *recorder) (val string, err error)
	// TokenEnds lexes input with the package's lexer alone and returns token end offsets.
	TokenEnds func(input string) []int
	// Gen produces an input of roughly ntok tokens: a flat list of short top-level items
	// (so listener events follow parser progress closely). brk selects how the input is
	// damaged: 0 not at all, 1 a few items, 2 periodically (every k-th item). The spans of
	// the intact items are returned for the bounded-stop oracle (nil if unknown).
	Gen func(src *sim.Src, ntok, brk int) (string, []itemSpan)
	// Variant, when set, derives a second input from a generated one (same offsets up to
	// some item, different text from there): for histories of two different inputs.
	Variant func(src *sim.Src, in string, spans []itemSpan) string
	// Events tells whether listener events reach rec (false for entry points that
	// build the AST themselves): only then is parser progress observable.
	Events bool
	// HasEH tells whether the entry point takes an ErrorHandler (recovering parser).
	HasEH bool
	// Lookaheads tells whether inputs can trigger lookahead sub-parsers.
	Lookaheads bool
	Weight     int
}

var targets []*Target

func register(t *Target) { targets = append(targets, t) }

// ---------------------------------------------------------------------------------
// the engine

type engine struct{}

func (engine) Name() string { return "cancelsim" }

type outcome struct {
	val    string
	err    error
	n      int
	errh   int
	maxEnd int
	polls  int
	ticks  int
}

func errString(err error) string {
	if err == nil {
		return "<nil>"
	}
	return fmt.Sprintf("%T(%v)", err, err)
}

func sameErr(a, b error) bool {
	if a == nil || b == nil {
		return a == nil && b == nil
	}
	return errString(a) == errString(b)
}

// safeParse runs one parse, turning a panic of the parser into a value.
func safeParse(t *Target, ctx context.Context, input string, rec *recorder) (val string, err error, panicked string) {
	defer func() {
		if r := recover(); r != nil {
			panicked = fmt.Sprint(r)
			if os.Getenv("ZZ_CANCELSIM_REFPANIC") != "" {
				panicked += fmt.Sprintf(" input=%.300q stack=%s", input, debug.Stack())
			}
		}
	}()
	val, err = t.Parse(ctx, input, rec)
	return
}

func breakInput(src *sim.Src, in string) string {
	if len(in) < 8 {
		return in + " @"
	}
	n := 1 + src.Draw(3)
	for i := 0; i < n; i++ {
		p := src.Draw(len(in))
		switch src.Draw(4) {
		case 0: // delete a span
			q := p + 1 + src.Draw(12)
			if q > len(in) {
				q = len(in)
			}
			in = in[:p] + in[q:]
		case 1: // insert garbage
			in = in[:p] + [...]string{" ) ", " } ", " ;; ", " @ ", " ( ", " { ", " 1 2 ", " . . "}[src.Draw(8)] + in[p:]
		case 2: // truncate
			if p > len(in)/2 {
				in = in[:p]
			}
		case 3: // duplicate a span
			q := p + 1 + src.Draw(12)
			if q > len(in) {
				q = len(in)
			}
			in = in[:q] + in[p:q] + in[q:]
		}
		if len(in) == 0 {
			in = "@"
		}
	}
	return in
}

type decoded struct {
	Target  string   `json:"target"`
	Tokens  int      `json:"tokens"`
	Bytes   int      `json:"bytes"`
	Broken  bool     `json:"broken"`
	StopAt  int      `json:"eh_stop_at"`
	RefErr  string   `json:"ref_err"`
	Ticks   int      `json:"ref_ticks"`
	Polls   int      `json:"ref_polls"`
	Cancels []string `json:"cancels"`
	Head    string   `json:"input_head"`
}

func countTokens(ends []int, from, to int) int {
	// tokens whose end offset lies in (from, to]
	lo := sort.SearchInts(ends, from+1)
	hi := sort.SearchInts(ends, to+1)
	if hi < lo {
		return 0
	}
	return hi - lo
}

func (engine) Run(src *sim.Src, log *sim.Log, res *sim.Result) {
	// 1. target
	w := make([]int, len(targets))
	for i, t := range targets {
		w[i] = t.Weight
	}
	t := targets[src.Pick(w...)]

	// 2. input
	var ntok int
	switch src.Pick(35, 40, 18, 6, 1) {
	case 4:
		ntok = src.Range(70000, 140000) // beyond 16-bit counters
	case 0:
		ntok = src.Range(20, 600)
	case 1:
		ntok = src.Range(600, 6000)
	case 2:
		ntok = src.Range(6000, 3*B+2000)
	case 3:
		ntok = src.Range(3*B+2000, 10*B)
	}
	brk := 0
	stopAt := 0
	if t.HasEH {
		brk = src.Pick(60, 22, 18)
		switch src.Pick(4, 4, 2) {
		case 0:
			stopAt = 1 // stop on first error
		case 1:
			stopAt = 0 // always continue
		case 2:
			stopAt = 2 + src.Draw(3)
		}
		if brk == 2 && src.Chance(3, 4) {
			stopAt = 0 // periodic damage is about parsing on through many recoveries
		}
	} else if src.Chance(15, 100) {
		brk = 1
	}
	broken := brk != 0
	input, items := t.Gen(src, ntok, brk)
	ends := t.TokenEnds(input)
	log.Printf("target=%s bytes=%d tokens=%d damage=%d stopAt=%d", t.Name, len(input), len(ends), brk, stopAt)

	// 3. reference run: a context that is never cancelled
	rctx := newSimCtx(errCanceled, -1)
	rctx.record = true
	rrec := &recorder{ctx: rctx, diverged: -1, stopAt: stopAt}
	rctx.rec = rrec
	rval, rerr, rpanic := safeParse(t, rctx, input, rrec)
	if rpanic != "" {
		// The parser panics on this input with no cancellation involved: outside this
		// property (that is error-recovery / language-equivalence territory). Counted.
		res.Skipped = "parser panics without cancellation: " + t.Name
		if os.Getenv("ZZ_CANCELSIM_REFPANIC") != "" { // investigation aid, never set by the checks
			res.Skipped = ""
			res.Fail("C29.debug", "reference-panic:"+t.Name, "target %s: uncancelled parse panicked: %s", t.Name, rpanic)
		}
		log.Printf("reference run panicked: %s", rpanic)
		return
	}
	ref := outcome{val: rval, err: rerr, n: rrec.n, errh: rrec.errh, maxEnd: rrec.maxEnd, polls: rctx.npolls, ticks: rctx.nticks}
	kinds := rctx.kinds
	log.Printf("ref: err=%s events=%d errh=%d ticks=%d polls=%d val=%.40q", errString(rerr), ref.n, ref.errh, ref.ticks, ref.polls, rval)
	res.Steps += ref.ticks
	if rerr != nil && (errors.Is(rerr, context.Canceled) || errors.Is(rerr, context.DeadlineExceeded)) {
		res.Fail("C29.safety", "uncancelled-returns-ctx-error", "target %s: the never-cancelled reference run returned %s", t.Name, errString(rerr))
		return
	}
	valid := rerr == nil && ref.errh == 0
	if valid {
		res.Probe("input:valid")
	} else {
		res.Probe("input:invalid")
	}

	// index ticks by kind for stratified choice of the firing instant
	var pollIdx, laIdx, errhIdx []int
	for i, k := range kinds {
		switch k {
		case 'P':
			pollIdx = append(pollIdx, i)
		case 'L':
			pollIdx = append(pollIdx, i)
			laIdx = append(laIdx, i)
		case 'H':
			errhIdx = append(errhIdx, i)
		}
	}
	if len(laIdx) > 0 {
		res.Probe("ref:has-lookahead-poll")
	}

	dec := &decoded{Target: t.Name, Tokens: len(ends), Bytes: len(input), Broken: broken, StopAt: stopAt,
		RefErr: errString(rerr), Ticks: ref.ticks, Polls: ref.polls}
	if len(input) > 120 {
		dec.Head = input[:120]
	} else {
		dec.Head = input
	}
	res.Decoded = dec

	// 4. cancelled runs
	k := 4 + src.Draw(9)
	var sched []string
	for ci := 0; ci < k; ci++ {
		var fireAt int
		how := src.Pick(30, 12, 12, 14, 8, 16, 4, 4)
		switch {
		case how == 0 && len(pollIdx) > 0: // at a poll: observed by that very poll
			fireAt = pollIdx[src.Draw(len(pollIdx))]
		case how == 1 && len(pollIdx) > 0: // the tick just before a poll
			fireAt = pollIdx[src.Draw(len(pollIdx))] - 1
		case how == 2 && len(pollIdx) > 0: // the tick just after a poll
			fireAt = pollIdx[src.Draw(len(pollIdx))] + 1
		case how == 3 && len(laIdx) > 0: // at a poll made by a lookahead sub-parser
			fireAt = laIdx[src.Draw(len(laIdx))]
		case how == 4 && len(errhIdx) > 0: // inside the error handler
			fireAt = errhIdx[src.Draw(len(errhIdx))]
		case how == 6: // pre-cancelled
			fireAt = -2
		case how == 7: // after the last tick (never observed)
			fireAt = ref.ticks
		default: // anywhere
			fireAt = src.Draw(ref.ticks + 1)
		}
		if fireAt < 0 && fireAt != -2 {
			fireAt = 0
		}
		ek := errKind(src.Pick(4, 2, 2, 3, 2, 2, 0, 2))
		if fireAt == -2 && src.Chance(1, 4) {
			ek = errStdPast // an expired deadline only makes sense as 'cancelled before the parse'
		}

		ctx := newSimCtx(ek, fireAt)
		rec := &recorder{ctx: ctx, ref: rrec.ev, diverged: -1, stopAt: stopAt, items: items}
		if rrec.ev == nil {
			rec.ref = []event{}
		}
		ctx.rec = rec
		if fireAt == -2 {
			ctx.fire('0')
		}
		val, err, pnc := safeParse(t, ctx, input, rec)
		res.Steps += ctx.nticks
		if pnc != "" {
			res.Fail("C29.safety", "panic:"+t.Name, "target %s, %d tokens, cancel(kind=%d) fired at tick %d of %d: the parse panicked (%s); the uncancelled parse returns err=%s",
				t.Name, len(ends), ek, fireAt, ref.ticks, pnc, errString(ref.err))
			return
		}

		isCtxErr := err != nil && ctx.err != nil && errors.Is(err, ctx.err)
		same := rec.diverged < 0 && rec.n == ref.n && val == ref.val && sameErr(err, ref.err)
		fk := byte('-')
		if ctx.fired {
			fk = ctx.firedAt.kind
		}
		log.Printf("cancel#%d kind=%d fireAt=%d fired=%v(%c) -> err=%s events=%d diverged=%d polls=%d ctxerr=%v same=%v",
			ci, ek, fireAt, ctx.fired, fk, errString(err), rec.n, rec.diverged, ctx.npolls, isCtxErr, same)
		desc := fmt.Sprintf("fire@%d(%c)/%d kind=%d -> ", fireAt, fk, ref.ticks, ek)

		switch {
		case isCtxErr && !ctx.fired:
			res.Fail("C29.safety", "ctx-error-without-cancel", "target %s: returned %s although the context was never cancelled", t.Name, errString(err))
			return
		case isCtxErr:
			res.Probe("outcome:ctx-error")
			desc += "ctx.Err"
			// which kind of poll observed it?
			if ctx.npolls > 0 && ctx.nticks > 0 {
				res.Probe("observed")
			}
		case same:
			if ctx.fired {
				res.Probe("outcome:completed-despite-cancel")
			} else {
				res.Probe("outcome:cancel-never-fired")
			}
			desc += "same-as-reference"
		default:
			sig := "diverged-events"
			switch {
			case err != nil && !sameErr(err, ref.err):
				sig = "spurious-error"
			case err == nil && ref.err != nil:
				sig = "error-lost"
			case rec.diverged < 0 && rec.n < ref.n:
				sig = "truncated-events"
			case val != ref.val:
				sig = "different-result"
			}
			res.Fail("C29.safety", sig+":"+t.Name,
				"target %s, %d tokens, cancel(kind=%d) fired at tick %d (%c) of %d: parse returned err=%s, %d events (first divergence at %d), value %.60q; "+
					"the uncancelled parse returns err=%s, %d events, value %.60q; ctx.Err()=%v",
				t.Name, len(ends), ek, fireAt, fk, ref.ticks, errString(err), rec.n, rec.diverged, val, errString(ref.err), ref.n, ref.val, ctx.err)
			dec.Cancels = append(dec.Cancels, desc+"VIOLATION")
			return
		}
		dec.Cancels = append(dec.Cancels, desc)

		// bounded stop (syntactically valid inputs only: tokens consumed == tokens shifted)
		// Progress is observable only through listener events; entry points without
		// them are held to the bound only for a context cancelled before the parse.
		if valid && ctx.fired && (t.Events || fireAt == -2) {
			stopPos := len(input)
			if isCtxErr {
				stopPos = rec.maxEnd
			}
			if !t.Events && isCtxErr {
				stopPos = 0 // unobservable; an early return is within any bound
			}
			over := countTokens(ends, ctx.firedAt.progress, stopPos)
			if over > res.Probes["max-tokens-after-cancel"] {
				if res.Probes == nil {
					res.Probes = map[string]int{}
				}
				res.Probes["max-tokens-after-cancel"] = over
			}
			if over > B {
				res.Fail("C29.bounded", "overrun:"+t.Name,
					"target %s: context cancelled when the parser had reported progress up to offset %d; the parse went on to offset %d (%d tokens later, bound %d) and returned %s",
					t.Name, ctx.firedAt.progress, stopPos, over, B, errString(err))
				return
			}
			if len(ends)-sort.SearchInts(ends, ctx.firedAt.progress+1) >= 3*B {
				res.Probe("bounded:cancel-with->=3B-tokens-left")
			}
		}

		// bounded stop, second oracle (valid and damaged inputs alike): intact items that
		// were reported, as a whole, after the cancellation are tokens shifted after it.
		if ctx.fired && items != nil {
			nItems, shifted := rec.shiftedAfterFire()
			if shifted > res.Probes["max-shifted-after-cancel-lower-bound"] {
				if res.Probes == nil {
					res.Probes = map[string]int{}
				}
				res.Probes["max-shifted-after-cancel-lower-bound"] = shifted
			}
			if shifted > B {
				res.Fail("C29.bounded", "overrun:"+t.Name,
					"target %s (%s input, %d tokens): after the context was cancelled (tick %d, %c) the parser still parsed %d intact top-level items, with exactly the events of an undamaged parse, holding %d tokens (bound %d), and returned %s",
					t.Name, [...]string{"valid", "sparsely damaged", "periodically damaged"}[brk], len(ends), fireAt, fk, nItems-2, shifted, B, errString(err))
				return
			}
			if !valid && nItems > 2 {
				res.Probe("bounded:checked-on-damaged-input")
			}
		}

		// probes + schedule fingerprint
		if ctx.fired {
			res.Fault("cancel:" + [...]string{"Canceled", "DeadlineExceeded", "custom-error", "std-WithCancel", "std-WithCancelCause", "std-child-of-cancelled-parent", "std-expired-deadline", "std-timeout-1h-cancelled-early"}[ek])
			res.Fault(fmt.Sprintf("cancel-at:%c", fk))
			if fk == 'H' {
				res.Probe("fired-inside-error-handler")
			}
			if fk == 'L' && isCtxErr {
				res.Probe("observed-by-lookahead-poll")
			}
			if fk == 'P' && isCtxErr {
				res.Probe("observed-by-main-poll")
			}
			if !valid && isCtxErr {
				res.Probe("cancel-observed-on-invalid-input")
			}
			if isCtxErr && ctx.firedAt.polls > 0 {
				res.NonTriv = true
			}
			pb := ctx.npolls
			if pb > 8 {
				pb = 8 + pb/8
			}
			oc := "same"
			if isCtxErr {
				oc = "ctx"
			}
			sched = append(sched, fmt.Sprintf("%c%d%s", fk, pb, oc))
			res.States = append(res.States, fmt.Sprintf("%s|%v|%c|%d|%s|%d", t.Name, valid, fk, pb, oc, ek))
		}
	}
	// reuse of parser objects: a cancelled parse, then an ordinary one with the same objects
	if t.NewSession != nil && res.Violation == nil && src.Chance(1, 3) {
		sess := t.NewSession()
		fireAt := -2
		if len(pollIdx) > 0 && src.Chance(2, 3) {
			fireAt = pollIdx[src.Draw(len(pollIdx))]
		} else if ref.ticks > 0 && src.Chance(1, 2) {
			fireAt = src.Draw(ref.ticks)
		}
		ctx := newSimCtx(errKind(src.Draw(3)), fireAt)
		rec := &recorder{ctx: ctx, ref: rrec.ev, diverged: -1, stopAt: stopAt}
		if rrec.ev == nil {
			rec.ref = []event{}
		}
		ctx.rec = rec
		if fireAt == -2 {
			ctx.fire('0')
		}
		sess1 := func() (string, error, string) {
			tt := *t
			tt.Parse = sess
			return safeParse(&tt, ctx, input, rec)
		}
		_, err1, pnc1 := sess1()
		// the next parse with the same objects: the same input, or a different one that shares
		// offsets and a prefix with it (state remembered per offset shows only then)
		input2, ref2, refEv2 := input, ref, rrec.ev
		otherInput := false
		if t.Variant != nil && items != nil && src.Chance(1, 2) {
			if v := t.Variant(src, input, items); v != input {
				vctx := newSimCtx(errCanceled, -1)
				vrec := &recorder{ctx: vctx, diverged: -1, stopAt: stopAt}
				vctx.rec = vrec
				vval, verr, vpnc := safeParse(t, vctx, v, vrec)
				if vpnc == "" {
					input2, refEv2, otherInput = v, vrec.ev, true
					ref2 = outcome{val: vval, err: verr, n: vrec.n, errh: vrec.errh, maxEnd: vrec.maxEnd, polls: vctx.npolls, ticks: vctx.nticks}
					res.Probe("reuse:next-parse-on-a-different-input")
				}
			}
		}
		ctx2 := newSimCtx(errCanceled, -1)
		rec2 := &recorder{ctx: ctx2, ref: refEv2, diverged: -1, stopAt: stopAt}
		if refEv2 == nil {
			rec2.ref = []event{}
		}
		ctx2.rec = rec2
		tt := *t
		tt.Parse = sess
		val2, err2, pnc2 := safeParse(&tt, ctx2, input2, rec2)
		res.Steps += ctx.nticks + ctx2.nticks
		same2 := pnc2 == "" && rec2.diverged < 0 && rec2.n == ref2.n && val2 == ref2.val && sameErr(err2, ref2.err)
		log.Printf("reuse: cancelled parse (fireAt=%d) -> err=%s panic=%q; next parse with the same objects (other input: %v) -> err=%s events=%d diverged=%d same=%v", fireAt, errString(err1), pnc1, otherInput, errString(err2), rec2.n, rec2.diverged, same2)
		res.Probe("reuse:parse-after-cancelled-parse")
		ref := ref2
		if !same2 {
			res.Fail("C29.safety", "stale-state-after-cancel:"+t.Name,
				"target %s: after a cancelled parse (cancel at tick %d, returned %s) the next, never-cancelled parse with the SAME parser objects returned err=%s panic=%q, %d events (first divergence at %d), value %.60q; a parse with fresh objects returns err=%s, %d events, value %.60q",
				t.Name, fireAt, errString(err1), errString(err2), pnc2, rec2.n, rec2.diverged, val2, errString(ref.err), ref.n, ref.val)
		}
	}
	// two callers: after the cancelled parses above, caller A starts a never-cancelled parse
	// and is descheduled inside its listener at a tape-chosen event; caller B then runs a
	// complete never-cancelled parse with its own parser objects; A resumes. The listener is
	// the only place where a parse hands control to its caller, so this is the interleaving
	// of two caller threads that the simulator can decide. Both must match the reference.
	if t.Events && res.Violation == nil && ref.n > 0 && len(ends) <= 12000 && src.Chance(1, 3) {
		mk := func() (*simCtx, *recorder) {
			c := newSimCtx(errCanceled, -1)
			r := &recorder{ctx: c, ref: rrec.ev, diverged: -1, stopAt: stopAt}
			if rrec.ev == nil {
				r.ref = []event{}
			}
			c.rec = r
			return c, r
		}
		ctxA, recA := mk()
		ctxB, recB := mk()
		if src.Chance(1, 2) && ref.ticks > 0 {
			// A's own context is cancelled somewhere along the way (possibly while it is
			// descheduled): A may then return its context's error; B must not notice
			ctxA = newSimCtx(errKind(src.Draw(3)), src.Draw(ref.ticks))
			ctxA.rec = recA
			recA.ctx = ctxA
		}
		recA.yieldAt = src.Draw(ref.n)
		var valB, pncB string
		var errB error
		ranB := false
		recA.onYield = func() {
			ranB = true
			valB, errB, pncB = safeParse(t, ctxB, input, recB)
		}
		valA, errA, pncA := safeParse(t, ctxA, input, recA)
		res.Steps += ctxA.nticks + ctxB.nticks
		sameA := pncA == "" && recA.diverged < 0 && recA.n == ref.n && valA == ref.val && sameErr(errA, ref.err)
		if pncA == "" && errA != nil && ctxA.fired && ctxA.err != nil && errors.Is(errA, ctxA.err) {
			sameA = true // A was cancelled and said so
			res.Probe("two-callers:descheduled-caller-cancelled")
		}
		sameB := !ranB || pncB == "" && recB.diverged < 0 && recB.n == ref.n && valB == ref.val && sameErr(errB, ref.err)
		log.Printf("two callers: A descheduled at event %d of %d, B ran=%v; A -> err=%s panic=%q events=%d diverged=%d same=%v; B -> err=%s panic=%q events=%d diverged=%d same=%v",
			recA.yieldAt, ref.n, ranB, errString(errA), pncA, recA.n, recA.diverged, sameA, errString(errB), pncB, recB.n, recB.diverged, sameB)
		if ranB {
			res.Probe("two-callers:interleaved-after-cancelled-parse")
		}
		if !sameA || !sameB {
			who, e, pn, n, dv, v := "A (the descheduled one)", errA, pncA, recA.n, recA.diverged, valA
			if sameA {
				who, e, pn, n, dv, v = "B (ran while A was descheduled)", errB, pncB, recB.n, recB.diverged, valB
			}
			res.Fail("C29.safety", "interleaved-callers-after-cancel:"+t.Name,
				"target %s: after cancelled parses in this process, two never-cancelled parses with separate parser objects were interleaved (A descheduled inside its listener at event %d of %d, B run to completion, A resumed); parse %s returned err=%s panic=%q, %d events (first divergence at %d), value %.60q; a parse on its own returns err=%s, %d events, value %.60q",
				t.Name, recA.yieldAt, ref.n, who, errString(e), pn, n, dv, v, errString(ref.err), ref.n, ref.val)
		}
	}
	sort.Strings(sched)
	res.Sched = t.Name + ":" + strings.Join(sched, ",")
}

func main() {
	if v, err := strconv.Atoi(os.Getenv("ZZ_CANCELSIM_B")); err == nil && v > 0 {
		B = v
	}
	initTargets()
	if len(targets) == 0 {
		fmt.Fprintln(os.Stderr, "cancelsim: no targets")
		os.Exit(2)
	}
	sim.Main(engine{}, os.Args[1:])
}
