package main

// initGenerated registers freshly generated cancellable parsers. The driver replaces
// this file (through the build overlay) with one that lists the batch it generated
// from the current tree.
func initGenerated() {}
