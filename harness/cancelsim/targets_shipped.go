package main

import (
	"context"
	"fmt"
	"hash/fnv"
	"strings"

	"github.com/inspirer/textmapper/parsers/js"
	jsast "github.com/inspirer/textmapper/parsers/js/ast"
	jssel "github.com/inspirer/textmapper/parsers/js/selector"
	jstok "github.com/inspirer/textmapper/parsers/js/token"
	tst "github.com/inspirer/textmapper/parsers/test"
	tsttok "github.com/inspirer/textmapper/parsers/test/token"
	"github.com/inspirer/textmapper/parsers/tm"
	tmast "github.com/inspirer/textmapper/parsers/tm/ast"
	tmsel "github.com/inspirer/textmapper/parsers/tm/selector"
	tmtok "github.com/inspirer/textmapper/parsers/tm/token"
	"github.com/inspirer/textmapper/zzverif/sim"
)

// ---------------------------------------------------------------------------------
// corpus-based input generation: a prologue, then items drawn from a corpus until the
// token budget is reached. Items are validated once at start-up with the parser under
// test (an item the current tree rejects is dropped, so a change to the grammars
// cannot turn into a false alarm here).

// a deepShape builds one item in which a long run of tokens is shifted with no reduction
// in between: open+sep repeated, a core, close+sep repeated. sep is a reported comment,
// so that every shift still produces a listener event (progress stays observable).
type deepShape struct {
	head, open, sep, core, close, tail string
	maxDepth                           int // 0: as deep as the token budget allows
}

type corpus struct {
	events   func(in string) []event // all events of an uncancelled parse (set before validate)
	sigs     []uint64                // per item: signature of the events of an undamaged parse (0: context dependent)
	deep     []deepShape
	prologue string
	items    []string
	toks     []int
	epilogue string
	sep      string
}

func (c *corpus) gen(src *sim.Src, ntok, brk int) (string, []itemSpan) {
	var b strings.Builder
	b.WriteString(c.prologue)
	n := 0
	// a run of inputs favours a random subset of the corpus (swarm style)
	var subset []int
	if src.Chance(1, 2) {
		k := 1 + src.Draw(4)
		for i := 0; i < k; i++ {
			subset = append(subset, src.Draw(len(c.items)))
		}
	}
	period := 0
	insertGarbage := false
	if brk == 2 {
		period = 1 + src.Draw(64)
		if src.Chance(1, 3) {
			period = 1 + src.Draw(3) // dense damage: an error every few tokens
		}
		// either every period-th item is damaged, or a garbage pseudo-item is inserted
		// after every period-th item (dense damage keeps the real items intact)
		insertGarbage = period < 4 || src.Chance(1, 2)
		if src.Chance(1, 2) {
			subset = []int{src.Draw(len(c.items))} // strictly periodic input
		}
	}
	// phase sweep: one item repeated behind 0..15 copies of the shortest item, so that the
	// parser's shift counter meets the repeated item at every phase (a poll period that
	// locks onto a particular token of a periodic input shows only then)
	phase := -1
	if brk == 0 && src.Chance(1, 8) {
		subset = []int{src.Draw(len(c.items))}
		phase = src.Draw(16)
	}
	f := src.Fork()
	var spans []itemSpan
	var damaged []int
	nitems := 0
	if phase > 0 {
		short := 0
		for i := range c.items {
			if c.toks[i] > 0 && (c.toks[short] == 0 || c.toks[i] < c.toks[short]) {
				short = i
			}
		}
		for k := 0; k < phase; k++ {
			off := b.Len()
			b.WriteString(c.items[short])
			spans = append(spans, itemSpan{off: off, end: b.Len(), toks: c.toks[short], intact: true, sig: c.sigs[short]})
			b.WriteString(c.sep)
		}
	}
	if len(c.deep) > 0 && brk == 0 && src.Chance(1, 7) {
		// one deeply nested item carrying most of the token budget
		d := c.deep[src.Draw(len(c.deep))]
		depth := ntok / 2
		if d.close == "" {
			depth = ntok
		}
		if d.maxDepth > 0 && depth > d.maxDepth {
			// every level re-scans the levels below it: the parse is quadratic in the depth
			depth = d.maxDepth/2 + src.Draw(d.maxDepth/2+1)
		}
		var db strings.Builder
		db.WriteString(d.head)
		for i := 0; i < depth; i++ {
			db.WriteString(d.open)
			db.WriteString(d.sep)
		}
		db.WriteString(d.core)
		for i := 0; i < depth; i++ {
			db.WriteString(d.close)
			if d.close != "" {
				db.WriteString(d.sep)
			}
		}
		db.WriteString(d.tail)
		for k := 0; k < 3; k++ {
			b.WriteString(c.items[f.Draw(len(c.items))])
			b.WriteString(c.sep)
		}
		b.WriteString(db.String())
		b.WriteString(c.sep)
		for k := 0; k < 3; k++ {
			b.WriteString(c.items[f.Draw(len(c.items))])
			b.WriteString(c.sep)
		}
		b.WriteString(c.epilogue)
		return b.String(), nil
	}
	for n < ntok {
		var i int
		if subset != nil {
			i = subset[f.Draw(len(subset))]
		} else {
			i = f.Draw(len(c.items))
		}
		text := c.items[i]
		hit := period > 0 && (nitems+1)%period == 0
		nitems++
		if hit && !insertGarbage {
			text = breakInput(f, text)
			damaged = append(damaged, len(spans))
		}
		off := b.Len()
		b.WriteString(text)
		spans = append(spans, itemSpan{off: off, end: b.Len(), toks: c.toks[i], intact: !(hit && !insertGarbage), sig: c.sigs[i]})
		b.WriteString(c.sep)
		n += max(1, c.toks[i])
		if hit && insertGarbage {
			g := [...]string{")", "}", "]", ") )", "} ;", "@", "= =", ", ,", ": :", "%"}[f.Draw(10)]
			off := b.Len()
			b.WriteString(g)
			spans = append(spans, itemSpan{off: off, end: b.Len(), toks: 0, intact: false})
			b.WriteString(c.sep)
		}
	}
	b.WriteString(c.epilogue)
	out := b.String()
	if brk == 1 && len(spans) > 0 {
		// a few damaged items: rebuild the text around them
		k := 1 + src.Draw(3)
		pick := map[int]bool{}
		for ; k > 0; k-- {
			pick[src.Draw(len(spans))] = true
		}
		var nb strings.Builder
		nb.WriteString(c.prologue)
		pos := len(c.prologue)
		for j := range spans {
			text := out[spans[j].off:spans[j].end]
			if pick[j] {
				text = breakInput(src, text)
				spans[j].intact = false
				damaged = append(damaged, j)
			}
			_ = pos
			spans[j].off = nb.Len()
			nb.WriteString(text)
			spans[j].end = nb.Len()
			nb.WriteString(c.sep)
		}
		nb.WriteString(c.epilogue)
		out = nb.String()
	}
	// Neighbours of damaged items stay countable: an item counts only when an event with
	// exactly its span is reported, i.e. when the parser reduced it as a unit — an error
	// node starts at the offending token, before the item — and a parser that honours
	// cancellation reports at most a poll period's worth of items after the canceller
	// fired, far below the bound, whatever recovery does in between.
	_ = damaged
	return out, spans
}

// variant returns the input with one of its first items replaced by another item of the
// corpus: a second input that shares offsets (and a prefix) with the first but is parsed
// differently from some point on.
func (c *corpus) variant(src *sim.Src, in string, spans []itemSpan) string {
	if len(spans) == 0 || len(c.items) == 0 {
		return in
	}
	k := src.Draw(min(len(spans), 64))
	if src.Chance(1, 2) {
		k = src.Draw(min(len(spans), 4))
	}
	return in[:spans[k].off] + c.items[src.Draw(len(c.items))] + in[spans[k].end:]
}

// plain adapts a generator without item structure.
func plain(g func(src *sim.Src, ntok int) string) func(src *sim.Src, ntok, brk int) (string, []itemSpan) {
	return func(src *sim.Src, ntok, brk int) (string, []itemSpan) {
		in := g(src, ntok)
		if brk != 0 {
			in = breakInput(src, in)
		}
		return in, nil
	}
}

func (c *corpus) validate(ends func(string) []int, ok func(string) bool) (dropped []string) {
	var items []string
	for _, it := range c.items {
		if ok(c.prologue + it + c.sep + it + c.sep + c.epilogue) {
			items = append(items, it)
			c.toks = append(c.toks, len(ends(it+c.sep)))
		} else {
			dropped = append(dropped, it)
		}
	}
	c.items = items
	c.sigs = make([]uint64, len(items))
	if c.events != nil {
		// The events an undamaged parse reports inside one item, taken from two different
		// positions of a valid input; an item whose events depend on its position gets no
		// signature and never counts for the bounded-stop oracle.
		for i, it := range items {
			other := items[(i+1)%len(items)]
			in := c.prologue + it + c.sep + other + c.sep + it + c.sep + c.epilogue
			o1 := len(c.prologue)
			o2 := o1 + len(it) + len(c.sep) + len(other) + len(c.sep)
			var s1, s2 uint64
			for _, e := range c.events(in) {
				if e.kind != 'E' {
					continue
				}
				if o1 <= e.off && e.end <= o1+len(it) {
					s1 = evSig(s1, e.t, e.flags, e.off-o1, e.end-o1)
				}
				if o2 <= e.off && e.end <= o2+len(it) {
					s2 = evSig(s2, e.t, e.flags, e.off-o2, e.end-o2)
				}
			}
			if s1 == s2 {
				c.sigs[i] = s1
			}
		}
	}
	var deep []deepShape
	for _, d := range c.deep {
		probe := c.prologue + d.head + strings.Repeat(d.open+d.sep, 3) + d.core + strings.Repeat(d.close+d.sep, 3)
		if d.close == "" {
			probe = c.prologue + d.head + strings.Repeat(d.open+d.sep, 3) + d.core
		}
		// the run of openers must be observable: a reported separator between the tokens,
		// otherwise listener events say nothing about how far the parser got and the
		// token-count oracle would mistake a long silent run for an overrun
		observable := false
		if c.events != nil && d.sep != "" {
			coreAt := len(c.prologue) + len(d.head) + 3*len(d.open+d.sep)
			seen := 0
			for _, e := range c.events(probe + d.tail + c.sep + c.epilogue) {
				if e.kind == 'E' && e.end <= coreAt && e.off >= len(c.prologue) {
					seen++
				}
			}
			observable = seen >= 2
		}
		if !observable && d.close == "" && d.sep == "" {
			observable = true // a flat run of operands (a + b + b ...): every operand is reduced and reported
		}
		if ok(probe+d.tail+c.sep+c.epilogue) && observable {
			deep = append(deep, d)
		} else {
			dropped = append(dropped, "deep:"+d.open+d.core+d.close)
		}
	}
	c.deep = deep
	return dropped
}

// ---------------------------------------------------------------------------------
// tm

func tmTokenEnds(in string) []int {
	var l tm.Lexer
	l.Init(in)
	var ends []int
	for t := l.Next(); t != tmtok.EOI; t = l.Next() {
		switch t {
		case tmtok.INVALID_TOKEN, tmtok.MULTILINECOMMENT, tmtok.COMMENT, tmtok.TEMPLATES:
			continue // never shifted: the token stream parks them as pending
		}
		_, e := l.Pos()
		ends = append(ends, e)
	}
	return ends
}

func tmParseWith(nonterm bool) func(ctx context.Context, in string, rec *recorder) (string, error) {
	return func(ctx context.Context, in string, rec *recorder) (string, error) {
		l := func(t tm.NodeType, off, end int) { rec.Event(int(t), 0, off, end) }
		eh := func(se tm.SyntaxError) bool { return rec.ErrH(se.Line, se.Offset, se.Endoffset) }
		var s tm.TokenStream
		s.Init(in, l)
		var p tm.Parser
		p.Init(eh, l)
		if nonterm {
			return "", p.ParseNonterm(ctx, &s)
		}
		return "", p.ParseFile(ctx, &s)
	}
}

// persistent objects for the reuse oracle
func tmSession() func(ctx context.Context, in string, rec *recorder) (string, error) {
	var s tm.TokenStream
	var p tm.Parser
	return func(ctx context.Context, in string, rec *recorder) (string, error) {
		l := func(t tm.NodeType, off, end int) { rec.Event(int(t), 0, off, end) }
		eh := func(se tm.SyntaxError) bool { return rec.ErrH(se.Line, se.Offset, se.Endoffset) }
		s.Init(in, l)
		p.Init(eh, l)
		return "", p.ParseFile(ctx, &s)
	}
}

func jsSession() func(ctx context.Context, in string, rec *recorder) (string, error) {
	var s js.TokenStream
	var p js.Parser
	return func(ctx context.Context, in string, rec *recorder) (string, error) {
		l := func(t js.NodeType, off, end int) { rec.Event(int(t), 0, off, end) }
		eh := func(se js.SyntaxError) bool { return rec.ErrH(se.Line, se.Offset, se.Endoffset) }
		s.Init(in, l)
		s.SetDialect(js.Typescript)
		p.Init(eh, l)
		return "", p.ParseModule(ctx, &s)
	}
}

func testSession() func(ctx context.Context, in string, rec *recorder) (string, error) {
	var l tst.Lexer
	var p tst.Parser
	return func(ctx context.Context, in string, rec *recorder) (string, error) {
		l.Init(in)
		p.Init(func(t tst.NodeType, flags tst.NodeFlags, off, end int) { rec.Event(int(t), int(flags), off, end) })
		return "", p.ParseTest(ctx, &l)
	}
}

func tmTreeHash(t *tmast.Tree) string {
	if t == nil {
		return "<nil tree>"
	}
	h := fnv.New64a()
	n := 0
	var walk func(nd *tmast.Node)
	walk = func(nd *tmast.Node) {
		n++
		fmt.Fprintf(h, "%d:%d:%d(", nd.Type(), nd.Offset(), nd.Endoffset())
		for ch := nd.Child(tmsel.Any); ch.IsValid(); ch = ch.Next(tmsel.Any) {
			walk(ch)
		}
		h.Write([]byte{')'})
	}
	walk(t.Root())
	return fmt.Sprintf("tree{%d nodes, %016x}", n, h.Sum64())
}

func tmParseAST(ctx context.Context, in string, rec *recorder) (string, error) {
	eh := func(se tm.SyntaxError) bool { return rec.ErrH(se.Line, se.Offset, se.Endoffset) }
	tree, err := tmast.Parse(ctx, "in.tm", in, eh)
	return tmTreeHash(tree), err
}

var tmCorpus = &corpus{
	deep: []deepShape{
		{head: "zzdeep: ", open: "(", sep: " /* c */ ", core: "a", close: ")", tail: " ;"},
		{head: "zzrun: a ;\n", open: "", sep: "# c\n", core: "zzrun2: b ;", close: "", tail: ""}, // a long run of reported, never shifted tokens
	},
	prologue: "language g(go);\n\nlang = \"g\"\npackage = \"a/b\"\neventBased = true\n\n:: lexer\n\nid: /[a-z]+/\nnum {int}: /[0-9]+/\n'+': /\\+/\n'(': /\\(/\n')': /\\)/\nws: /[ \\t]+/ (space)\n\n:: parser\n\n%input file;\n\n",
	sep:      "\n",
	items: []string{
		"file: a b c ;",
		"a -> A: id '+' id | num ;",
		"b: id? num* ;",
		"c -> C/Flag: '(' a ')' | (a separator '+')+ ;",
		"%left '+';",
		"d<T>: [T] id | [!T] num ;",
		"e -> E: (?= a) id num | (?= !a & b) '(' ')' ;",
		"f {int}: num { $$ = $num } ;",
		"g: set(id | num)+ '+' set(~id & ~num) ;",
		"%interface Expr, Stmt;",
		"h -> H: lhs=id '+' rhs=id -> Plus | .foo id %prec '+' ;",
		"# a comment line",
		"i: id .greedy num | id ;",
		"%flag T = false;",
		"%lookahead flag U;",
		"j<flag V = true>: d<+T> d<~T> d<T: V> ;",
		"k -> K: id{a} num{b} { foo($a, $b); } ;",
		"%expect 0;",
		"%expect-rr 1;",
		"%generate afterID = set(follow id);",
		"l: (id | num '+')+? ;",
		"%inject ws -> Ws;",
		"m returns X: id ;",
		"extend a: '(' ')' ;",
		"inline n: id num ;",
		"%assert empty set(first a & first b);",
	},
}

// a single (very long) nonterminal definition for the secondary input ParseNonterm
var tmAlts = []string{
	"id '+' id", "num", "id? num*", "'(' a ')'", "(a separator '+')+", "[T] id", "(?= a) id num", "num { $$ = $num }",
	"set(id | num)+ '+'", "lhs=id '+' rhs=id -> Plus", "id .greedy num", "d<+T> d<~T>", "id{a} num{b} { foo($a, $b); }", "(id | num '+')+?",
	"%empty", "a b c -> ABC/Flag", "id %prec '+'", "'(' (b | c)* ')' -> Paren",
}

func genTmNonterm(src *sim.Src, ntok int) string {
	var b strings.Builder
	b.WriteString("x -> X:\n    id")
	f := src.Fork()
	for n := 0; n < ntok; n += 5 {
		b.WriteString("\n  | ")
		b.WriteString(tmAlts[f.Draw(len(tmAlts))])
	}
	b.WriteString("\n;\n")
	return b.String()
}

// ---------------------------------------------------------------------------------
// js

func jsTokenEnds(in string) []int {
	var l js.Lexer
	l.Init(in)
	l.Dialect = js.Typescript
	var ends []int
	for t := l.Next(); t != jstok.EOI; t = l.Next() {
		switch t {
		case jstok.MULTILINECOMMENT, jstok.SINGLELINECOMMENT, jstok.INVALID_TOKEN:
			continue // never shifted
		}
		_, e := l.Pos()
		ends = append(ends, e)
	}
	return ends
}

func jsParse(ctx context.Context, in string, rec *recorder) (string, error) {
	l := func(t js.NodeType, off, end int) { rec.Event(int(t), 0, off, end) }
	eh := func(se js.SyntaxError) bool { return rec.ErrH(se.Line, se.Offset, se.Endoffset) }
	var s js.TokenStream
	s.Init(in, l)
	s.SetDialect(js.Typescript)
	var p js.Parser
	p.Init(eh, l)
	return "", p.ParseModule(ctx, &s)
}

func jsTreeHash(t *jsast.Tree) string {
	if t == nil {
		return "<nil tree>"
	}
	h := fnv.New64a()
	n := 0
	var walk func(nd *jsast.Node)
	walk = func(nd *jsast.Node) {
		n++
		fmt.Fprintf(h, "%d:%d:%d(", nd.Type(), nd.Offset(), nd.Endoffset())
		for ch := nd.Child(jssel.Any); ch.IsValid(); ch = ch.Next(jssel.Any) {
			walk(ch)
		}
		h.Write([]byte{')'})
	}
	walk(t.Root())
	return fmt.Sprintf("tree{%d nodes, %016x}", n, h.Sum64())
}

func jsParseAST(ctx context.Context, in string, rec *recorder) (string, error) {
	eh := func(se js.SyntaxError) bool { return rec.ErrH(se.Line, se.Offset, se.Endoffset) }
	tree, err := jsast.Parse(ctx, "in.js", in, eh)
	return jsTreeHash(tree), err
}

func jsParseExpr(ctx context.Context, in string, rec *recorder) (string, error) {
	l := func(t js.NodeType, off, end int) { rec.Event(int(t), 0, off, end) }
	eh := func(se js.SyntaxError) bool { return rec.ErrH(se.Line, se.Offset, se.Endoffset) }
	var s js.TokenStream
	s.Init(in, l)
	s.SetDialect(js.Typescript)
	var p js.Parser
	p.Init(eh, l)
	return "", p.ParseExpressionSnippet(ctx, &s)
}

// statements chosen to make the lookahead sub-parsers frequent: arrow functions,
// parametrised calls, `as`, function types, mapped types, tuple element names.
var jsCorpus = &corpus{
	deep: []deepShape{
		{open: "{", sep: " /*c*/ ", core: "x;", close: "}"},
		{open: "!", sep: "/*c*/", core: "x", close: "", tail: ";"},
		{open: "(", sep: "/*c*/", core: "x", close: ")", tail: ";"},
		{open: "[", sep: " /*c*/ ", core: "1", close: "]", tail: ";"},
		{open: "-", sep: " /*c*/ ", core: "1", close: "", tail: ";"},
		{head: "x = `a", open: "${b}c", sep: "", core: "", close: "", tail: "`;"},
		{head: "x = a", open: " + b", sep: " /*c*/", core: "", close: "", tail: ";"},
		{head: "x;\n", open: "", sep: "// c\n", core: "y;", close: "", tail: ""},
		// arrow functions whose parameter defaults are arrow functions: every level is decided
		// by a lookahead sub-parser running inside the sub-parser of the level above
		{head: "x = ", open: "(a, b = ", sep: "/*c*/", core: "1", close: ", c) => 1", tail: ";", maxDepth: 120},
		{head: "f(", open: "(a = ", sep: " ", core: "(p, q, r, s) => p", close: ") => a", tail: ");", maxDepth: 120},
	},
	sep: "\n",
	items: []string{
		"var a = 1;",
		"h = (p = (q0, q1, q2, q3, q4, q5, q6, q7) => 1, r = (s) => (t = (u) => u) => t) => 2;",
		"let b = a + 2 * c;",
		"const f = (x, y) => x + y;",
		"const g = (x) => { return x; };",
		"f(1, 2);",
		"g<number>(3);",
		"h<A, B>(a, b);",
		"x = y as T;",
		"x = (a) < b;",
		"x = (a) => b;",
		"x = (a) + 1;",
		"x = (a, b);",
		"x = (a + b) * (c - d);",
		"if (a) { b(); } else { c(); }",
		"for (let i = 0; i < 10; i++) { s += i; }",
		"while (x) x--;",
		"function foo(a: number, b?: string): void { return; }",
		"class A extends B { m() { return 1; } }",
		"class C<T> implements I { private x: T; constructor(x: T) { this.x = x; } }",
		"interface I { a: number; b(x: string): void; }",
		"type F = (a: number) => string;",
		"type M = { [K in keyof T]: T[K] };",
		"type Tup = [a: string, b?: number];",
		"type U = A | B & C;",
		"type Cond<T> = T extends string ? 1 : 2;",
		"let t: [number, string] = [1, 'a'];",
		"let o = { a: 1, b, c() {}, ...d };",
		"let [p, q = 1, ...r] = arr;",
		"async function af() { await x; }",
		"const af2 = async (a) => await a;",
		"try { x(); } catch (e) { y(); } finally { z(); }",
		"switch (a) { case 1: b(); break; default: c(); }",
		"label: for (;;) { break label; }",
		"x = a ? b : c;",
		"x = a ?? b;",
		"x = a?.b?.[c]?.(d);",
		"x = `t ${a} u ${b}`;",
		"x = /re/g.test(s);",
		"x = new Foo<T>(1);",
		"x = <T>y;",
		"enum E { A, B = 2 }",
		"namespace N { export const z = 1; }",
		"declare function df(a: any): a is string;",
		"export default function () {}",
		"import { a as b2 } from './m';",
		"export { a2, b3 as c3 };",
		"function* gen() { yield 1; yield* other(); }",
		"x = function (a, b) { return a; };",
		"x = (a: number, b: string): void => {};",
		"x = f<T>(a)(b);",
		"x = a < b > c;",
		"let fn: new (a: string) => Foo;",
		"abstract class AB { abstract m(): void; }",
		"x = y satisfies Z;",
		"x! += 1;",
		"if (a < b && c > (d)) e();",
		"do { x++; } while (x < 5);",
		"for (const k in obj) {}",
		"for (const v of list) {}",
		"throw new Error('x');",
		"x = typeof a === 'string';",
		"x = (((a)));",
		"x = [(a), (b) => c, (d)];",
		"f((a), (b, c) => d, e<F>(g));",
		// no explicit semicolons: automatic semicolon insertion
		"a", "a = b", "f(a)", "x++", "let q = 1", "return_ = (a) => a", "y = a\n+ b",
	},
}

func jsParseEntry(which int) func(ctx context.Context, in string, rec *recorder) (string, error) {
	return func(ctx context.Context, in string, rec *recorder) (string, error) {
		l := func(t js.NodeType, off, end int) { rec.Event(int(t), 0, off, end) }
		eh := func(se js.SyntaxError) bool { return rec.ErrH(se.Line, se.Offset, se.Endoffset) }
		var s js.TokenStream
		s.Init(in, l)
		s.SetDialect(js.Typescript)
		var p js.Parser
		p.Init(eh, l)
		if which == 0 {
			return "", p.ParseTypeSnippet(ctx, &s)
		}
		return "", p.ParseNamespaceNameSnippet(ctx, &s)
	}
}

var jsTypeCorpus = &corpus{
	prologue: "X",
	sep:      "\n",
	items: []string{
		"| Foo<Bar>", "| (a: A) => B", "| { a: number; b?: string }", "| [a: string, b?: number]", "& C", "| D[]", "| keyof E", "| typeof f",
		"| { [K in keyof T]: T[K] }", "| (new (x: X) => Y)", "| G<H<I>, J>", "| 'lit'", "| 42", "| (K | L)[]",
	},
}

var jsNsCorpus = &corpus{
	prologue: "a",
	sep:      "",
	items:    []string{".b", ".cde", ". f", ".g1", ".$h", "._i"},
}

var jsExprCorpus = &corpus{
	prologue: "0",
	sep:      "\n",
	items: []string{
		"+ a", "* (b)", "- f(x, y)", "+ ((x) => x)", "|| g<T>(1)", "&& (a as B)", "+ [1, 2, 3]", "- {a: 1}.a", "+ (a ? b : c)",
		"+ `s${x}`", "?? z", "+ new X()", "- (a, b)", "+ a.b.c[d]", "* (async (q) => q)", "+ h<A, B>(c)",
	},
}

// ---------------------------------------------------------------------------------
// test (semantic values, recursive lookaheads, cancellableFetch; no error recovery)

func testTokenEnds(in string) []int {
	var l tst.Lexer
	l.Init(in)
	var ends []int
	for t := l.Next(); t != tsttok.EOI; t = l.Next() {
		switch t {
		case tsttok.MULTILINECOMMENT, tsttok.SINGLELINECOMMENT, tsttok.INVALID_TOKEN:
			continue // never shifted
		}
		_, e := l.Pos()
		ends = append(ends, e)
	}
	return ends
}

func testParse(ctx context.Context, in string, rec *recorder) (string, error) {
	var l tst.Lexer
	l.Init(in)
	var p tst.Parser
	p.Init(func(t tst.NodeType, flags tst.NodeFlags, off, end int) { rec.Event(int(t), int(flags), off, end) })
	return "", p.ParseTest(ctx, &l)
}

func testParseDecl1(ctx context.Context, in string, rec *recorder) (string, error) {
	var l tst.Lexer
	l.Init(in)
	var p tst.Parser
	p.Init(func(t tst.NodeType, flags tst.NodeFlags, off, end int) { rec.Event(int(t), int(flags), off, end) })
	v, err := p.ParseDecl1(ctx, &l)
	return fmt.Sprint(v), err
}

var testCorpus = &corpus{
	deep: []deepShape{
		{open: "{", sep: " /* c */ ", core: "decl2", close: "}"},
		{open: "if(as)", sep: " /* c */ ", core: "decl2", close: ""},
		{head: "decl2\n", open: "", sep: "/* c */\n", core: "decl2", close: ""},
		{head: "decl2\n", open: "", sep: "// c\n", core: "decl2", close: ""},
	},
	sep: "\n",
	items: []string{
		"decl2",
		"decl1(a.b.c)",
		"decl1(abc)",
		"{-decl2}",
		"{--decl2 decl1(x)}",
		"{}",
		"if(as) decl2",
		"if(f_a as f_a) decl2 else decl2",
		"if(as) if(as) decl2 else decl2",
		"42",
		"7[]",
		"9",
		"test decl1 test",
		"test decl2 test",
		"test { a b c 1 2 }",
		"test()",
		"test(3 . 4)",
		"test 5",
		"eval(1)",
		"eval(1 + 2 + 3)",
		"eval(1 as 2)",
		"eval(1 . 2)",
		"eval(1 . 2 + 3)",
		"eval(1 foo_ 2)",
		"eval(1 . \\ 2 + 3)",
		"decl2: a.b.c",
		"decl2:",
		"z z z x",
		"z z z y",
		"// comment",
		"/* c1 /* nested */ c2 */ decl2",
	},
}

func genDecl1(src *sim.Src, ntok int) string {
	var b strings.Builder
	b.WriteString("decl1(a")
	f := src.Fork()
	for i := 0; i < ntok/2; i++ {
		b.WriteString([...]string{".b", ".cde", ". f", ".g1"}[f.Draw(4)])
	}
	b.WriteString(")")
	return b.String()
}

// ---------------------------------------------------------------------------------

// eventsWith returns a function that parses an input without cancellation and returns
// every event reported.
func eventsWith(parse func(ctx context.Context, in string, rec *recorder) (string, error)) func(string) []event {
	return func(in string) []event {
		ctx := newSimCtx(errCanceled, -1)
		rec := &recorder{ctx: ctx, diverged: -1}
		ctx.rec = rec
		defer func() { recover() }()
		parse(ctx, in, rec)
		return rec.ev
	}
}

func okWith(parse func(ctx context.Context, in string, rec *recorder) (string, error)) func(string) bool {
	return func(in string) bool {
		ctx := newSimCtx(errCanceled, -1)
		rec := &recorder{ctx: ctx, diverged: -1, stopAt: 1}
		ctx.rec = rec
		_, err := parse(ctx, in, rec)
		return err == nil && rec.errh == 0
	}
}

var droppedItems = map[string][]string{}

func initTargets() {
	tmCorpus.events = eventsWith(tmParseWith(false))
	jsCorpus.events = eventsWith(jsParse)
	jsExprCorpus.events = eventsWith(jsParseExpr)
	testCorpus.events = eventsWith(testParse)
	jsTypeCorpus.events = eventsWith(jsParseEntry(0))
	jsNsCorpus.events = eventsWith(jsParseEntry(1))
	droppedItems["jstype"] = jsTypeCorpus.validate(jsTokenEnds, okWith(jsParseEntry(0)))
	droppedItems["jsns"] = jsNsCorpus.validate(jsTokenEnds, okWith(jsParseEntry(1)))
	droppedItems["tm"] = tmCorpus.validate(tmTokenEnds, okWith(tmParseWith(false)))
	droppedItems["js"] = jsCorpus.validate(jsTokenEnds, okWith(jsParse))
	droppedItems["jsexpr"] = jsExprCorpus.validate(jsTokenEnds, okWith(jsParseExpr))
	droppedItems["test"] = testCorpus.validate(testTokenEnds, okWith(testParse))

	if len(tmCorpus.items) > 0 {
		register(&Target{Name: "tm.Parser.ParseFile", NewSession: tmSession, Parse: tmParseWith(false), TokenEnds: tmTokenEnds, Gen: tmCorpus.gen, Variant: tmCorpus.variant, HasEH: true, Events: true, Weight: 10})
		if okWith(tmParseWith(true))(genTmNonterm(sim.NewSearch(1, 1), 60)) {
			register(&Target{Name: "tm.Parser.ParseNonterm", Parse: tmParseWith(true), TokenEnds: tmTokenEnds, Gen: plain(genTmNonterm), HasEH: true, Events: true, Weight: 4})
		}
		register(&Target{Name: "tm/ast.Parse", Parse: tmParseAST, TokenEnds: tmTokenEnds, Gen: tmCorpus.gen, HasEH: true, Weight: 5})
	}
	if len(jsCorpus.items) > 0 {
		register(&Target{Name: "js.Parser.ParseModule", NewSession: jsSession, Parse: jsParse, TokenEnds: jsTokenEnds, Gen: jsCorpus.gen, Variant: jsCorpus.variant, HasEH: true, Events: true, Lookaheads: true, Weight: 24})
		register(&Target{Name: "js/ast.Parse", Parse: jsParseAST, TokenEnds: jsTokenEnds, Gen: jsCorpus.gen, HasEH: true, Lookaheads: true, Weight: 8})
	}
	if len(jsExprCorpus.items) > 0 {
		register(&Target{Name: "js.Parser.ParseExpressionSnippet", Parse: jsParseExpr, TokenEnds: jsTokenEnds, Gen: jsExprCorpus.gen, HasEH: true, Events: true, Lookaheads: true, Weight: 6})
	}
	if len(jsTypeCorpus.items) > 0 {
		register(&Target{Name: "js.Parser.ParseTypeSnippet", Parse: jsParseEntry(0), TokenEnds: jsTokenEnds, Gen: jsTypeCorpus.gen, HasEH: true, Events: true, Lookaheads: true, Weight: 4})
	}
	if len(jsNsCorpus.items) > 0 {
		register(&Target{Name: "js.Parser.ParseNamespaceNameSnippet", Parse: jsParseEntry(1), TokenEnds: jsTokenEnds, Gen: jsNsCorpus.gen, HasEH: true, Events: true, Weight: 2})
	}
	if len(testCorpus.items) > 0 {
		register(&Target{Name: "test.Parser.ParseTest", NewSession: testSession, Parse: testParse, TokenEnds: testTokenEnds, Gen: testCorpus.gen, Variant: testCorpus.variant, Events: true, Lookaheads: true, Weight: 14})
		register(&Target{Name: "test.Parser.ParseDecl1", Parse: testParseDecl1, TokenEnds: testTokenEnds, Gen: plain(genDecl1), Events: true, Weight: 4})
	}
	initGenerated()
}

// registerGenerated plugs a freshly generated parser (see /verif/driver/genbatch.go) into
// the target list. Its corpus is validated with the parser itself, like the shipped ones.
func registerGenerated(name string, parse func(ctx context.Context, in string, ev func(t, flags, off, end int), eh func(line, off, end int) bool) (string, error),
	newSession func() func(ctx context.Context, in string, ev func(t, flags, off, end int), eh func(line, off, end int) bool) (string, error),
	ends func(string) []int, c *corpus, deep [][6]string, hasEH, lookaheads bool) {
	sess := func() func(ctx context.Context, in string, rec *recorder) (string, error) {
		f := newSession()
		return func(ctx context.Context, in string, rec *recorder) (string, error) {
			return f(ctx, in, rec.Event, rec.ErrH)
		}
	}
	for _, d := range deep {
		c.deep = append(c.deep, deepShape{head: d[0], open: d[1], sep: d[2], core: d[3], close: d[4], tail: d[5]})
	}
	p := func(ctx context.Context, in string, rec *recorder) (string, error) {
		return parse(ctx, in, rec.Event, rec.ErrH)
	}
	c.events = eventsWith(p)
	droppedItems[name] = c.validate(ends, okWith(p))
	if len(c.items) == 0 {
		return
	}
	register(&Target{Name: name, NewSession: sess, Parse: p, TokenEnds: ends, Gen: c.gen, Variant: c.variant, HasEH: hasEH, Events: true, Lookaheads: lookaheads, Weight: 9})
}
