# synthetic: named arguments, mid-rule actions, typed nonterminals, several imports
language s1(go);

lang = "s1"
package = "example.com/zz/s1"
eventBased = false
genParser = true

:: lexer

ws: /[ \t\r\n]+/ (space)
id {string}: /[a-zA-Z_]+/  { $$ = l.Text() }
num {int}: /[0-9]+/        { $$, _ = "strconv".Atoi(l.Text()) }
'+': /\+/
'-': /-/
'*': /\*/
'(': /\(/
')': /\)/
',': /,/
'=': /=/
';': /;/

:: parser

%input file;

%left '+' '-';
%left '*';

file {int}:
    stmts=stmt+                         { $$ = len("strings".Fields("a b")) } ;

stmt {int}:
    id[name] '=' expr[val] ';'            { "fmt".Println($name, $val); $$ = $val }
  | id[first] { "os".Getenv($first) } ',' id[second] '=' expr[a] expr[b]? ';'   { $$ = $a + $b + len($first) + len($second) }
  | '(' id[lhs] (',' id[rhs])? ('=' id[third])? ')' ';'  { $$ = len($lhs) + len($rhs) + len($third) }
;

expr {int}:
    expr[left] '+' expr[right]            { $$ = $left + $right }
  | expr[left] '-' expr[right]            { $$ = $left - $right }
  | expr[left] '*' expr[right]            { $$ = $left * $right }
  | '(' expr[inner] ')'                  { $$ = $inner }
  | num                                 { $$ = $num }
  | id[call] '(' (expr[args] separator ',')* ')'   { "fmt".Sprint($call); $$ = 0 }
;
