# synthetic: class rule with many keywords (string switch), event-based AST with categories
language s2(go);

lang = "s2"
package = "example.com/zz/s2"
eventBased = true
eventFields = true
eventAST = true

:: lexer

ws: /[ \t\r\n]+/ (space)
comment: /#[^\n]*/ (space)
invalid_token:
id: /[a-zA-Z_][a-zA-Z_0-9]*/ (class)
'if': /if/
'else': /else/
'while': /while/
'for': /for/
'return': /return/
'break': /break/
'continue': /continue/
'func': /func/
'var': /var/
'const': /const/
'type': /type/
'struct': /struct/
'import': /import/
'package': /package/
'switch': /switch/
'case': /case/
'default': /default/
'{': /\{/
'}': /\}/
'(': /\(/
')': /\)/
';': /;/
'=': /=/
num: /[0-9]+/

:: parser

%input File;

%inject comment -> Comment;
%inject invalid_token -> InvalidToken;

%interface Stmt, Decl, Expr;

File -> File: Decl+ ;

Decl -> Decl:
    'func' id '(' ')' Block           -> FuncDecl
  | 'var' id '=' Expr ';'             -> VarDecl
  | 'const' id '=' Expr ';'           -> ConstDecl
  | 'type' id 'struct' '{' '}'        -> TypeDecl
  | 'import' id ';'                        -> ImportDecl
  | 'package' id ';'                       -> PackageDecl
;

Block -> Block: '{' Stmt* '}' ;

Stmt -> Stmt:
    'if' '(' Expr ')' then=Block ('else' else=Block)?   -> IfStmt
  | 'while' '(' Expr ')' Block             -> WhileStmt
  | 'for' '(' ';' ';' ')' Block            -> ForStmt
  | 'return' Expr? ';'                     -> ReturnStmt
  | 'break' ';'                            -> BreakStmt
  | 'continue' ';'                         -> ContinueStmt
  | 'switch' '(' Expr ')' '{' Case* '}'    -> SwitchStmt
  | Expr ';'                               -> ExprStmt
  | Block
;

Case -> Case:
    'case' Expr Block | 'default' Block ;

Expr -> Expr:
    id    -> Ref
  | num   -> Num
;
