# synthetic: lalr(k) resolution (trie), greedy and lr0 markers, lookaheads
language s3(go);

lang = "s3"
package = "example.com/zz/s3"
eventBased = true
cancellable = true
recursiveLookaheads = true

:: lexer

ws: /[ \t\r\n]+/ (space)
id: /[a-zA-Z_]+/ (class)
num: /[0-9]+/
'a': /a/
'b': /b/
'c': /c/
'd': /d/
'x': /x/
'y': /y/
'z': /z/
'(': /\(/
')': /\)/
'.': /\./
'+': /\+/

:: parser lalr(3)

%input root;

root -> Root: item+ ;

item -> Item:
    'z' X1 'z' 'x'          -> AX
  | 'z' Y1 'z' 'y'          -> AY
  | 'a' X2 'b' 'c' 'x'      -> BX
  | 'a' Y2 'b' 'c' 'y'      -> BY
  | 'd' X3 'a' 'x'          -> CX
  | 'd' Y3 'a' 'y'          -> CY
  | 'd' Z3 'a' 'z'          -> CZ
  | elem
  | (?= StartOfParen) '(' num '.' num ')'   -> Pair
  | (?= !StartOfParen) '(' id ')'           -> Paren
  | id .greedy id                           -> TwoIds
  | id
;

X1 -> X1: 'z' ;
Y1 -> Y1: 'z' ;
X2 -> X2: 'b' ;
Y2 -> Y2: 'b' ;
X3 -> X3: 'c' ;
Y3 -> Y3: 'c' ;
Z3 -> Z3: 'c' ;

elem -> Elem:
    num '+' .greedy num | num ;

StartOfParen: '(' num '.' ;
