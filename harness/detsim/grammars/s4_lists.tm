# synthetic: nested optionals and lists that extract nonterminals, templates, sets, inlining
language s4(go);

lang = "s4"
package = "example.com/zz/s4"
eventBased = true
eventFields = true
fixWhitespace = true
tokenLine = true

:: lexer

ws: /[ \t\r\n]+/ (space)
id: /[a-zA-Z_]+/
num: /[0-9]+/
',': /,/
';': /;/
':': /:/
'(': /\(/
')': /\)/
'[': /\[/
']': /\]/
'<': /</
'>': />/
'=': /=/
'@': /@/
error:

:: parser

%input Unit;

%flag Ann;
%flag Deep = false;

Unit -> Unit: (Entry<+Ann> separator ';')+ ';'? ;

Entry<Ann> -> Entry:
    [Ann] '@' id (('(' (Arg separator ',')* ')')? )
  | id (':' type=Type<+Deep>)? ('=' value=Value)? Tags?
  | error
;

Tags -> Tags: '[' (id (',' id)*)? ']' ;

Arg -> Arg: id '=' Value | Value ;

Type<Deep> -> Type:
    id
  | id '<' (Type separator ',')+ '>'
  | [Deep] '(' Type ')'
;

Value -> Value:
    num | id | '(' (Value separator ',')* ')' | set(~(';' | ',' | ')' | '(' | eoi | error | num | id) & ~'@') ;
