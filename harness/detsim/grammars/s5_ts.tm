# synthetic: TypeScript target with imports
language s5(ts);

eventBased = true

:: lexer

ws: /[ \t\r\n]+/ (space)
id: /[a-zA-Z_]+/
num: /[0-9]+/
'{': /\{/
'}': /\}/
'[': /\[/
']': /\]/
':': /:/
',': /,/

:: parser

%input Value;

Value -> Value:
    '{' (Member separator ',')* '}'   -> Object
  | '[' (Value separator ',')* ']'    -> Array
  | id                                -> Ident
  | num                               -> Number
;

Member -> Member: key=id ':' Value ;
