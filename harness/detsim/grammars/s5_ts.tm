# synthetic: TypeScript target with imports
language s5(ts);

eventBased = true

:: lexer

ws: /[ \t\r\n]+/ (space)
id: /[a-zA-Z_]+/
num: /[0-9]+/
'{': /\{/
'}': /\}/
'[': /\[/
']': /\]/
':': /:/
',': /,/

:: parser

%input Value;

Value -> Value:
    '{' (Member separator ',')* '}'   -> Object
  | '[' (Value separator ',')* ']'    -> Array
  | id                                -> Ident
  | num                               -> Number
;

Member -> Member: key=id ':' Value ;

%%

{{define "onBeforeLexer"}}
// imports from several modules, several symbols each
const zzA = "./util/strings".trimAll("./util/strings".padLeft("x", 3));
const zzB: "./model/node".Node = new "./model/node".Leaf("./model/kinds".Kind.Ident, "./model/kinds".defaultFlags);
const zzD = "./common".debugLog("../common".isTrivia(1), "./common/x".a, "../common/x".b);
const zzC = "../shared/log".debug("./util/strings".join(["a", "b"]), "../shared/log".Level.Info);
{{end}}

{{define "onAfterLexer"}}
export function zzHelper(n: "./model/node".Node): "./model/kinds".Kind { return "./model/node".kindOf(n); }
{{end}}
