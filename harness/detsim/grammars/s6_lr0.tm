# synthetic: several .lr0 and .greedy markers (lalr/compile.go marker maps), extracted
# nonterminals with commands that reference symbols behind them (syntax/expand.go)
language s6(go);

lang = "s6"
package = "example.com/zz/s6"
eventBased = false
genParser = true

:: lexer

ws: /[ \t\r\n]+/ (space)
id {string}: /[a-zA-Z_]+/  { $$ = l.Text() }
num {int}: /[0-9]+/        { $$ = len(l.Text()) }
'+': /\+/
'-': /-/
',': /,/
';': /;/
'(': /\(/
')': /\)/
'[': /\[/
']': /\]/
'=': /=/
':': /:/

:: parser

%input file;

file {int}:
    (decl ';')+                         { $$ = 0 } ;

decl {int}:
    id[name] (':' id[typ])? ('=' expr[init])? ('[' num[size] ']')?
        { $$ = len($name) + len($typ) + $init + $size }
  | '(' (id[k] '=' expr[v] separator ',')+ ')' id[tail]?
        { $$ = len($tail) }
  | .lr0 num[a] '+' .lr0 num[b] '-' .lr0 num[c]
        { $$ = $a + $b + $c }
  | num[a] .greedy ',' num[b] .greedy ',' .greedy num[c]
        { $$ = $a * $b * $c }
  | '[' (expr separator ',')*[elems] ']' num+[sizes] ':' id*[names]
        { _ = $elems; _ = $sizes; _ = $names; $$ = 0 }
  | '=' set(id | '+')[mark] num*[more] set('-' | ':')[other]
        { _ = $more; $$ = 1 }
;

expr {int}:
    num                                 { $$ = $num }
  | id ('(' (expr[arg] separator ',')* ')')?   { $$ = len($id) }
  | '-' expr[inner]                     { $$ = -$inner }
;
