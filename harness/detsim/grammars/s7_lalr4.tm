# synthetic: reduce/reduce conflicts that need 2..4 tokens of lookahead with several
# terminals per level (lalr/trie.go termMap)
language s7(go);

lang = "s7"
package = "example.com/zz/s7"
eventBased = true

:: lexer

ws: /[ \t\r\n]+/ (space)
'a': /a/
'b': /b/
'c': /c/
'd': /d/
'e': /e/
'f': /f/
'p': /p/
'q': /q/
'r': /r/
's': /s/
't': /t/

:: parser lalr(4)

%input root;

root -> Root: item+ ;

item -> Item:
    'a' P1 'b' 'p'          -> I1
  | 'a' Q1 'b' 'q'          -> I2
  | 'a' R1 'c' 'p'          -> I3
  | 'a' S1 'c' 'q'          -> I4
  | 'a' T1 'd' 'e' 'r'      -> I5
  | 'a' U1 'd' 'e' 's'      -> I6
  | 'a' V1 'd' 'f' 'e' 't'  -> I7
  | 'a' W1 'd' 'f' 'e' 'p'  -> I8
  | 'a' P1 'c' 't'          -> I9
  | 'a' Q1 'e' 'p'          -> I10
  | 'a' T1 'f' 'r'          -> I11
  | 'a' V1 'e' 'e' 't'      -> I12
;

P1 -> P1: 'b' ;
Q1 -> Q1: 'b' ;
R1 -> R1: 'b' ;
S1 -> S1: 'b' ;
T1 -> T1: 'b' ;
U1 -> U1: 'b' ;
V1 -> V1: 'b' ;
W1 -> W1: 'b' ;
