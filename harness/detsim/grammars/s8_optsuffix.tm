# synthetic: aliases with and without the opt suffix in one rule (compiler/syntax.go name maps),
# repeated mid-rule actions (command digest), nodePrefix, debugParser, defaultReduce
language s8(go);

lang = "s8"
package = "example.com/zz/s8"
eventBased = true
aliasIncludesOptSuffix = false
nodePrefix = "Nd"
debugParser = true
optimizeTables = true
defaultReduce = true

:: lexer

space: /[\t\r\n ]+/ (space)
'a': /a/
'b': /b/
'c': /c/
'd': /d/
'e': /e/
';': /;/
',': /,/

:: parser

%input input;

input -> Input: stmt+ ;

stmt -> Stmt:
    x xopt ';'                        { use(${x.offset}) }
  | 'c' x y { mid($x, $y) } ',' 'c'   -> First
  | 'c' x y { mid($x, $y) } ',' 'd'   -> Second
  | 'e' x yopt ';'                    { use2(${x.offset}, ${y.offset}) }
;

x -> X: 'a' | 'b' ;
y -> Y: 'b' 'a' ;
