// detsim: deterministic simulation of everything the environment decides while
// `textmapper generate` runs (property C18): the iteration order of every map walked on
// the compile/generate path, the wall clock, and the history of earlier generations in
// the same process. The generator is real code; the orders and the clock come from the
// tape through package zzsim (installed by an overlay rewrite of the current tree).
package main

import (
	"context"
	"crypto/sha256"
	"encoding/hex"
	"encoding/json"
	"fmt"
	"os"
	"path/filepath"
	"runtime"
	"sort"
	"strings"
	"time"

	"github.com/inspirer/textmapper/gen"
	"github.com/inspirer/textmapper/util/diff"
	"github.com/inspirer/textmapper/zzverif/sim"
	"github.com/inspirer/textmapper/zzverif/zzsim"
)

type poolEntry struct {
	ID        string `json:"id"`
	Path      string `json:"path"`
	Committed bool   `json:"committed"` // shipped grammar: output must equal the files next to it
	Heavy     bool   `json:"heavy"`     // expensive to generate (js): drawn rarely
	Lang      string `json:"lang"`      // target language of the grammar (go, cc, ts)
	Name      string `json:"name"`      // language name from the grammar's header
}

type fileSum struct {
	Name string `json:"name"`
	SHA  string `json:"sha256"`
}

type refEntry struct {
	ID    string    `json:"id"`
	Files []fileSum `json:"files"`
	Err   string    `json:"err,omitempty"`
}

type setup struct {
	Pool  []poolEntry          `json:"pool"`
	Sites []string             `json:"sites"` // map-range site ids, sorted
	Refs  map[string]*refEntry `json:"refs"`
}

var cfg setup

type recWriter struct {
	files   []fileSum
	content map[string]string
}

func (w *recWriter) Write(filename, content string) error {
	h := sha256.Sum256([]byte(content))
	w.files = append(w.files, fileSum{filename, hex.EncodeToString(h[:12])})
	if w.content != nil {
		w.content[filename] = content
	}
	return nil
}

// generate runs the real generator under st (nil = no simulation: natural map order,
// real clock).
func generate(p *poolEntry, st *zzsim.State, keep bool) (*recWriter, error) {
	return generateIn(p, st, keep, envChoice{}, false)
}

// envChoice is what the process environment looks like during one generation: the
// simulator owns it the way it owns map order and the clock.
type envChoice struct {
	path   int // 0 inherited, 1 a PATH holding nothing, 2 fake formatters ahead of the inherited PATH
	cwd    int // 0 inherited, 1 the grammar's directory, 2 the file system root
	locale int // 0 inherited, 1 LANG/LC_ALL=tr_TR.UTF-8 TZ=Asia/Kolkata, 2 LANG=C TZ=America/St_Johns
}

func (e envChoice) String() string {
	return fmt.Sprintf("PATH=%s cwd=%s locale=%s", [...]string{"inherited", "empty", "fake-formatters-first"}[e.path],
		[...]string{"inherited", "grammar-dir", "/"}[e.cwd], [...]string{"inherited", "tr_TR/Kolkata", "C/St_Johns"}[e.locale])
}

// scratchHome is this process's private HOME / cache / temp directory: whatever the
// generator leaves in the user's directories stays inside the run and is part of its history.
var scratchHome string

func setupHome() {
	d, err := os.MkdirTemp(scratchBase(), "zzdetsim-home.")
	if err != nil {
		return
	}
	scratchHome = d
	for _, sub := range []string{".cache", ".config", "tmp", "emptybin", "fakebin", "overlay"} {
		os.MkdirAll(filepath.Join(d, sub), 0o755)
	}
	os.Setenv("HOME", d)
	os.Setenv("XDG_CACHE_HOME", filepath.Join(d, ".cache"))
	os.Setenv("XDG_CONFIG_HOME", filepath.Join(d, ".config"))
	os.Setenv("TMPDIR", filepath.Join(d, "tmp"))
	// formatters that visibly change what they are given
	for _, tool := range []string{"gofmt", "goimports", "clang-format", "prettier"} {
		os.WriteFile(filepath.Join(d, "fakebin", tool), []byte("#!/bin/sh\ncat\necho '// zz-fake-formatter-was-here'\n"), 0o755)
	}
	// a template overlay (textmapper generate -i <dir>) that replaces the header of every file
	for _, lang := range []string{"go", "cc", "ts"} {
		os.WriteFile(filepath.Join(d, "overlay", lang+"_shared.go.tmpl"), []byte("{{define \"header\" -}}\n// generated for the simulator's overlay; DO NOT EDIT\n\n{{end}}\n"), 0o644)
	}
}

// scratchBase is the driver's scratch directory (removed when the check ends, also when
// a child was killed half-way through a run).
func scratchBase() string {
	if base := os.Getenv("ZZ_DETSIM_SCRATCH"); base != "" {
		return base
	}
	return "/var/tmp"
}

func cleanupHome() {
	if scratchHome != "" {
		os.RemoveAll(scratchHome)
	}
}

// simCtx is a context whose cancellation is an event on the simulated schedule: it is done
// from its fireAt-th poll (Done or Err call) on; fireAt < 0 never fires.
type simCtx struct {
	polls  int
	fireAt int
	ch     chan struct{}
	fired  bool
}

func newSimCtx(fireAt int) *simCtx { return &simCtx{fireAt: fireAt, ch: make(chan struct{})} }

func (c *simCtx) poll() {
	if !c.fired && c.fireAt >= 0 && c.polls >= c.fireAt {
		c.fired = true
		close(c.ch)
	}
	c.polls++
}
func (c *simCtx) Deadline() (time.Time, bool) { return time.Time{}, false }
func (c *simCtx) Done() <-chan struct{}       { c.poll(); return c.ch }
func (c *simCtx) Err() error {
	c.poll()
	if c.fired {
		return context.Canceled
	}
	return nil
}
func (c *simCtx) Value(any) any { return nil }

// genCtx is the context of the next generateIn call (nil: context.Background()).
var genCtx context.Context

func generateIn(p *poolEntry, st *zzsim.State, keep bool, env envChoice, overlay bool) (*recWriter, error) {
	w := &recWriter{}
	if keep {
		w.content = map[string]string{}
	}
	var undo []func()
	setenv := func(k, v string) {
		old, had := os.LookupEnv(k)
		os.Setenv(k, v)
		undo = append(undo, func() {
			if had {
				os.Setenv(k, old)
			} else {
				os.Unsetenv(k)
			}
		})
	}
	if scratchHome != "" {
		switch env.path {
		case 1:
			setenv("PATH", filepath.Join(scratchHome, "emptybin"))
		case 2:
			setenv("PATH", filepath.Join(scratchHome, "fakebin")+string(os.PathListSeparator)+os.Getenv("PATH"))
		}
	}
	switch env.locale {
	case 1:
		setenv("LANG", "tr_TR.UTF-8")
		setenv("LC_ALL", "tr_TR.UTF-8")
		setenv("TZ", "Asia/Kolkata")
	case 2:
		setenv("LANG", "C")
		setenv("LC_ALL", "C")
		setenv("TZ", "America/St_Johns")
	}
	if env.cwd != 0 {
		if old, err := os.Getwd(); err == nil {
			dir := "/"
			if env.cwd == 1 {
				dir = filepath.Dir(p.Path)
			}
			if os.Chdir(dir) == nil {
				undo = append(undo, func() { os.Chdir(old) })
			}
		}
	}
	opts := gen.Options{}
	if overlay && scratchHome != "" {
		opts.IncludeDirs = []string{filepath.Join(scratchHome, "overlay")}
	}
	zzsim.Install(st)
	ctx := context.Background()
	if genCtx != nil {
		ctx, genCtx = genCtx, nil
	}
	_, err := gen.GenerateFile(ctx, p.Path, w, opts)
	zzsim.Install(nil)
	for i := len(undo) - 1; i >= 0; i-- {
		undo[i]()
	}
	return w, err
}

func errText(err error) string {
	if err == nil {
		return ""
	}
	s := err.Error()
	if len(s) > 300 {
		s = s[:300]
	}
	return s
}

func sameFiles(a, b []fileSum) (bool, string) {
	for i := 0; i < len(a) || i < len(b); i++ {
		switch {
		case i >= len(a):
			return false, b[i].Name
		case i >= len(b):
			return false, a[i].Name
		case a[i] != b[i]:
			return false, a[i].Name
		}
	}
	return true, ""
}

var policyNames = [...]string{"asc", "desc", "rot", "shuf"}

type engine struct{}

func (engine) Name() string { return "detsim" }

type stepDesc struct {
	Grammar  string            `json:"grammar"`
	Mode     string            `json:"mode"`
	Policies map[string]string `json:"permuted_sites,omitempty"`
	Epoch    string            `json:"clock_epoch"`
	Env      string            `json:"environment"`
	Overlay  bool              `json:"template_overlay,omitempty"`
	Jumps    []string          `json:"clock_jumps,omitempty"`
}

func (engine) Run(src *sim.Src, log *sim.Log, res *sim.Result) {
	// history: a sequence of generations in this process
	n := 1 + src.Pick(50, 25, 12, 8, 5)
	var light, heavy, broken []int
	for i, p := range cfg.Pool {
		if strings.HasPrefix(p.ID, "broken/") {
			// grammars whose generation fails on purpose: never compared, only run as history
			if r := cfg.Refs[p.ID]; r != nil && r.Err != "" {
				broken = append(broken, i)
			}
			continue
		}
		if r := cfg.Refs[p.ID]; r == nil || r.Err != "" {
			continue
		}
		if p.Heavy {
			heavy = append(heavy, i)
		} else {
			light = append(light, i)
		}
	}
	if len(light) == 0 {
		res.Skipped = "no grammar compiles on this tree"
		return
	}
	// history shapes: state leaking from one generation into the next shows between
	// grammars that share code paths, so some histories stay within one back end, repeat
	// one grammar (A A) or sandwich it (A B A)
	byLang := map[string][]int{}
	var langs []string
	for _, i := range light {
		l := cfg.Pool[i].Lang
		if byLang[l] == nil {
			langs = append(langs, l)
		}
		byLang[l] = append(byLang[l], i)
	}
	sort.Strings(langs)
	// grammars of the same language for different back ends (json for go, ts, cc, flex)
	// share patterns, names and templates: they interact if anything does
	byName := map[string][]int{}
	var families []string
	for _, i := range light {
		nm := cfg.Pool[i].Name
		byName[nm] = append(byName[nm], i)
	}
	for nm, l := range byName {
		if len(l) >= 2 {
			families = append(families, nm)
		}
	}
	sort.Strings(families)
	shape := src.Pick(35, 30, 10, 15, 10)
	if shape == 4 && len(families) == 0 {
		shape = 0
	}
	from := light
	if shape == 4 {
		from = byName[families[src.Draw(len(families))]]
		if n < 2 {
			n = 2 + src.Draw(2)
		}
	}
	if shape == 1 {
		from = byLang[langs[src.Draw(len(langs))]]
		if n < 2 {
			n = 2
		}
	}
	var planned []int
	switch shape {
	case 2: // A A
		a := light[src.Draw(len(light))]
		planned = []int{a, a}
	case 3: // A B A
		a := light[src.Draw(len(light))]
		same := byLang[cfg.Pool[a].Lang]
		planned = []int{a, same[src.Draw(len(same))], a}
	}
	if len(heavy) > 0 && src.Chance(1, 40) {
		// a heavy grammar (js) first, then a shipped one: state js leaves behind
		var shipped []int
		for _, i := range light {
			if cfg.Pool[i].Committed {
				shipped = append(shipped, i)
			}
		}
		if len(shipped) > 0 {
			planned = []int{heavy[src.Draw(len(heavy))], shipped[src.Draw(len(shipped))]}
		}
	}
	// the same path holding two different grammars, one after the other, with identical
	// size and modification time (coarse timestamps, `cp -p`, hermetic sandboxes): anything
	// that recognises a grammar by its file metadata instead of its content shows here
	var rewriteDir string
	if planned == nil && src.Chance(1, 25) {
		var cands []int
		for _, i := range light {
			if cfg.Pool[i].Lang != "cc" && !cfg.Pool[i].Committed && rewritable(cfg.Pool[i].Path) {
				cands = append(cands, i)
			}
		}
		if len(cands) >= 2 {
			a := cands[src.Draw(len(cands))]
			b := cands[src.Draw(len(cands))]
			if a != b {
				if d, err := os.MkdirTemp(scratchBase(), "zzdetsim-rewrite."); err == nil {
					rewriteDir = d
					defer os.RemoveAll(d)
					planned = []int{a, b}
					res.Fault("file-replaced-same-size-and-mtime")
				}
			}
		}
	}
	// the same grammar under a template overlay first (`-i dir`), then plainly: anything
	// remembered about a grammar (in the process or in the user's directories, which live as
	// long as this run) that is keyed without the options shows here. Large grammars are
	// preferred: caches tend to engage above a size threshold.
	overlayFirst := false
	if planned == nil && src.Chance(1, 12) {
		cands := append([]int{}, light...)
		sort.Slice(cands, func(i, j int) bool { return fileSize(cfg.Pool[cands[i]].Path) > fileSize(cfg.Pool[cands[j]].Path) })
		k := len(cands)
		if src.Chance(1, 2) && k >= 8 {
			k /= 4
		}
		a := cands[src.Draw(k)]
		planned = []int{a, a}
		overlayFirst = true
	}
	// a generation whose output or tables are far larger than any shipped grammar's
	if planned == nil && src.Chance(1, 30) {
		var huge []int
		for _, i := range heavy {
			if strings.Contains(cfg.Pool[i].ID, "huge") {
				huge = append(huge, i)
			}
		}
		if len(huge) > 0 {
			planned = []int{huge[src.Draw(len(huge))]}
		}
	}
	if planned != nil {
		n = len(planned)
	}
	var steps []stepDesc
	var hist []string
	for s := 0; s < n && res.Violation == nil; s++ {
		var p *poolEntry
		switch {
		case planned != nil:
			p = &cfg.Pool[planned[s]]
		case len(heavy) > 0 && src.Chance(1, 400):
			p = &cfg.Pool[heavy[src.Draw(len(heavy))]]
		default:
			p = &cfg.Pool[from[src.Draw(len(from))]]
		}
		hist = append(hist, p.ID)
		ref := cfg.Refs[p.ID]
		if rewriteDir != "" {
			// both grammars live, one after the other, in the same file
			cp := *p
			cp.Path = filepath.Join(rewriteDir, "grammar.tm")
			if err := writePadded(cp.Path, p.Path, rewriteSize(cfg.Pool[planned[0]].Path, cfg.Pool[planned[1]].Path)); err != nil {
				res.Skipped = "cannot write scratch grammar: " + err.Error()
				return
			}
			p = &cp
		}

		st := &zzsim.State{Policies: map[string]zzsim.SitePolicy{}}
		desc := stepDesc{Grammar: p.ID, Policies: map[string]string{}}
		// swarm: which sites are permuted at all in this generation
		mode := src.Pick(10, 55, 35)
		switch mode {
		case 0:
			desc.Mode = "all-ascending"
		case 1:
			desc.Mode = "every-site-drawn"
		case 2:
			desc.Mode = "few-sites-drawn"
		}
		for _, site := range cfg.Sites {
			var pol zzsim.SitePolicy
			on := mode == 1 || mode == 2 && src.Chance(1, 5)
			if mode != 0 {
				kind := src.Pick(20, 30, 20, 30)
				param := uint64(src.Draw(1 << 20))
				if on {
					pol = zzsim.SitePolicy{Kind: kind, Param: param}
				}
			}
			st.Policies[site] = pol
			if pol.Kind != zzsim.Ascending {
				desc.Policies[site] = fmt.Sprintf("%s/%d", policyNames[pol.Kind], pol.Param)
			}
		}
		// sites the rewriter found in a changed tree but that are not in the list are
		// walked in descending order when anything is permuted at all
		if mode != 0 {
			st.Default = zzsim.SitePolicy{Kind: zzsim.Descending}
		}
		// clock
		switch src.Draw(5) {
		case 0:
			st.Epoch = time.Unix(0, 0).UTC()
		case 1:
			st.Epoch = time.Date(2026, 9, 21, 12, 0, 0, 0, time.UTC)
		case 2:
			st.Epoch = time.Date(1999, 12, 31, 23, 59, 59, 999999999, time.UTC)
		case 3:
			st.Epoch = time.Date(2262, 4, 11, 0, 0, 0, 0, time.UTC)
		case 4:
			st.Epoch = time.Unix(int64(src.Draw(1<<31)), int64(src.Draw(1e9))).UTC()
		}
		desc.Epoch = st.Epoch.Format(time.RFC3339Nano)
		for j := 0; j < 8; j++ {
			d := []time.Duration{0, 1, time.Microsecond, time.Millisecond, 1500 * time.Millisecond, time.Hour, 24 * 365 * time.Hour, 40 * 365 * 24 * time.Hour}[src.Draw(8)]
			st.Jumps = append(st.Jumps, d)
			desc.Jumps = append(desc.Jumps, d.String())
		}
		env := envChoice{path: src.Pick(60, 15, 25), cwd: src.Pick(70, 15, 15), locale: src.Pick(70, 15, 15)}
		overlay := overlayFirst && s == 0
		desc.Env = env.String()
		desc.Overlay = overlay
		steps = append(steps, desc)
		if env != (envChoice{}) {
			res.Fault("environment-varied")
			for _, kv := range strings.Fields(env.String()) {
				if !strings.HasSuffix(kv, "=inherited") {
					res.Probe("env:" + kv)
				}
			}
		}

		// a generation that fails half-way (an error raised while templates and semantic
		// actions are rendered) right before this one: `textmapper generate a.tm b.tm`
		// carries on after an error, so whatever the failure left behind is history
		if len(broken) > 0 && src.Chance(1, 8) {
			bi := broken[src.Draw(len(broken))]
			for _, j := range broken {
				if cfg.Pool[j].Lang == p.Lang && src.Chance(2, 3) {
					bi = j
					break
				}
			}
			bst := &zzsim.State{Epoch: st.Epoch, Policies: st.Policies, Default: st.Default}
			_, berr := generateIn(&cfg.Pool[bi], bst, false, env, false)
			log.Printf("step %d: failing generation of %s first, err=%q", s, cfg.Pool[bi].ID, errText(berr))
			if berr != nil {
				res.Probe("failed-generation-in-history")
				res.Fault("earlier-generation-failed")
			}
		}
		// the caller's context as an event on the schedule: cancelled from its k-th poll on.
		// A cancelled generation may fail; one that reports success wrote the reference files.
		var sctx *simCtx
		if !overlay && src.Chance(1, 6) {
			sctx = newSimCtx([]int{0, 0, 1, 2, 3, 5, 8, 20, 100, 1000}[src.Draw(10)])
			genCtx = sctx
		}
		w, err := generateIn(p, st, p.Committed, env, overlay)
		res.Steps++
		if sctx != nil {
			res.Fault("context-cancelled-at-poll")
			if sctx.fired {
				res.Probe("ctx:fired")
			}
			log.Printf("step %d: context cancelled from poll %d on: polls=%d fired=%v err=%q", s, sctx.fireAt, sctx.polls, sctx.fired, errText(err))
			if sctx.fired && err != nil {
				// the admissible outcome of a cancelled generation; nothing to compare
				res.Probe("ctx:generation-failed-after-cancel")
				continue
			}
			if sctx.fired {
				res.Probe("ctx:generation-succeeded-despite-cancel")
				if ok, first := sameFiles(ref.Files, w.files); !ok {
					res.Fail("C18.cancellation", p.ID+":"+first,
						"grammar %s: the caller's context was cancelled from its poll %d on (%d polls in all); the generation reported success but its files differ from the reference (first differing file %q, %d files against %d): what is written depends on when the context is cancelled",
						p.ID, sctx.fireAt, sctx.polls, first, len(w.files), len(ref.Files))
					break
				}
			}
		}
		// probes: per-site reach
		for site, ss := range st.Stats {
			res.ProbeN("site-exec:"+site, ss.Execs)
			res.ProbeN("site-permuted:"+site, ss.Permuted)
			for fp := range ss.Signatures {
				res.States = append(res.States, fmt.Sprintf("%s/%x", site, fp))
			}
			if ss.Permuted > 0 {
				res.Fault("map-order-permuted")
			}
		}
		if st.ClockReads > 0 {
			res.Fault("clock-jump")
			res.ProbeN("clock-reads", st.ClockReads)
		}
		if s > 0 {
			res.Probe("generation-with-history")
		}
		if overlay {
			// not compared: it only has to have happened before the plain generation
			log.Printf("step %d: %s under a template overlay, files=%d err=%q", s, p.ID, len(w.files), errText(err))
			res.Probe("generation-under-template-overlay")
			continue
		}
		ok, first := sameFiles(ref.Files, w.files)
		log.Printf("step %d: %s mode=%s env=[%s] files=%d err=%q same=%v", s, p.ID, desc.Mode, env, len(w.files), errText(err), ok)
		if errText(err) != ref.Err || !ok {
			explain(p, st, w, err, ref, first, hist, env, res)
			break
		}
		if p.Committed && err == nil {
			checkCommitted(p, w, res)
		}
		// twin execution: the same generation again under exactly the same simulated
		// choices. A difference means some source of nondeterminism is not owned by the
		// simulator (goroutine completion order, pointer values, hash seeds, unseeded
		// randomness): a real divergence between two executions, reported even though
		// it cannot be replayed from the tape.
		if res.Violation == nil && !p.Heavy && src.Chance(1, 4) {
			st2 := *st
			st2.Stats = nil
			w2, err2 := generateIn(p, &st2, false, env, false)
			res.Probe("twin-execution-compared")
			if ok2, first2 := sameFiles(w.files, w2.files); !ok2 || errText(err2) != errText(err) {
				res.Fail("C18.unowned", p.ID+":"+first2,
					"grammar %s: two executions under identical simulated map orders and clock, in one process, differ (first differing file %q, errors %q / %q): the output depends on something else the environment decides (scheduling, addresses, hash seeds, randomness)",
					p.ID, first2, errText(err), errText(err2))
			}
		}
	}
	res.Sched = strings.Join(hist, ">")
	for _, d := range steps {
		res.Sched += "|" + strings.Join(sortedPol(d.Policies), ",")
	}
	res.NonTriv = res.Faults["map-order-permuted"] > 0
	res.Decoded = map[string]any{"history": hist, "steps": steps}
}

// rewritable: a grammar that can be padded with a trailing comment (no template section).
func rewritable(path string) bool {
	b, err := os.ReadFile(path)
	return err == nil && !strings.Contains(string(b), "\n%%")
}

func rewriteSize(a, b string) int {
	fa, _ := os.Stat(a)
	fb, _ := os.Stat(b)
	n := int(fa.Size())
	if int(fb.Size()) > n {
		n = int(fb.Size())
	}
	return n + 4
}

var rewriteTime = time.Date(2020, 1, 1, 0, 0, 0, 0, time.UTC)

// writePadded copies src to dst, padded with a trailing comment to exactly size bytes,
// and gives it a fixed modification time.
func writePadded(dst, src string, size int) error {
	b, err := os.ReadFile(src)
	if err != nil {
		return err
	}
	if !strings.HasSuffix(string(b), "\n") {
		b = append(b, '\n')
	}
	pad := size - len(b)
	if pad >= 2 {
		b = append(b, '#')
		b = append(b, []byte(strings.Repeat("-", pad-2))...)
		b = append(b, '\n')
	} else {
		for ; pad > 0; pad-- {
			b = append(b, '\n')
		}
	}
	if err := os.WriteFile(dst, b, 0o644); err != nil {
		return err
	}
	return os.Chtimes(dst, rewriteTime, rewriteTime)
}

func sortedPol(m map[string]string) []string {
	var out []string
	for k, v := range m {
		out = append(out, k+"="+v[:strings.IndexByte(v, '/')])
	}
	sort.Strings(out)
	return out
}

// explain re-runs the failing step keeping contents, and the all-ascending reference in
// this very process, to say what differs and whether order/clock or history is to blame.
func explain(p *poolEntry, st *zzsim.State, w *recWriter, err error, ref *refEntry, first string, hist []string, env envChoice, res *sim.Result) {
	refSt := &zzsim.State{Epoch: time.Unix(0, 0).UTC()}
	rw, rerr := generate(p, refSt, true)
	refHere, _ := sameFiles(ref.Files, rw.files)
	if refHere && errText(rerr) == ref.Err && env != (envChoice{}) {
		// every map ascending and the clock at zero, but in the varied environment
		ew, eerr := generateIn(p, &zzsim.State{Epoch: time.Unix(0, 0).UTC()}, true, env, false)
		if same, f := sameFiles(rw.files, ew.files); !same || errText(eerr) != errText(rerr) {
			d := ""
			if f != "" {
				d = boundedDiff(rw.content[f], ew.content[f])
				if len(d) > 1500 {
					d = d[:1500] + "\n..."
				}
			}
			res.Fail("C18.environment", p.ID+":"+f,
				"grammar %s: file %q (error %q vs %q) differs between two generations in this process that differ only in the process environment (%s): the generated bytes depend on the machine the generator runs on\n%s",
				p.ID, f, errText(eerr), errText(rerr), env, d)
			return
		}
	}
	if (!refHere || errText(rerr) != ref.Err) && len(hist) == 1 {
		// no earlier generation in this process: what differs from the reference process is
		// the process itself
		res.Fail("C18.process", p.ID+":"+first,
			"grammar %s: generated as the first generation of a fresh process with every map in ascending order and the clock at zero, the output differs from the same generation in another fresh process (first differing file %q, error %q vs %q); this process runs with GOMAXPROCS=%d, the reference process with the machine's default (%d CPUs): the output depends on the process's scheduling settings",
			p.ID, first, errText(rerr), ref.Err, runtime.GOMAXPROCS(0), runtime.NumCPU())
		return
	}
	if !refHere || errText(rerr) != ref.Err {
		res.Fail("C18.history", p.ID+":"+first,
			"grammar %s: regenerated with every map in ascending order and the clock at zero after the history %v, the output differs from the same generation in a fresh process (first differing file %q, error %q vs %q): an earlier generation in this process leaks into this one",
			p.ID, hist, first, errText(rerr), ref.Err)
		return
	}
	st2 := *st
	st2.Stats = nil
	gw, gerr := generate(p, &st2, true)
	if errText(gerr) != errText(rerr) {
		res.Fail("C18.order", p.ID+":error",
			"grammar %s: generation fails with %q under the simulated map orders %v but yields %q with every map ascending", p.ID, errText(gerr), permuted(st), errText(rerr))
		return
	}
	d := ""
	if first != "" {
		d = boundedDiff(rw.content[first], gw.content[first])
		if len(d) > 1500 {
			d = d[:1500] + "\n..."
		}
	}
	res.Fail("C18.order", p.ID+":"+first,
		"grammar %s: file %q differs between two simulated executions of the same tree (reference: every map ascending, clock at zero; this run: %v, clock epoch %v)\n%s",
		p.ID, first, permuted(st), st.Epoch, d)
}

func permuted(st *zzsim.State) []string {
	var out []string
	for site, p := range st.Policies {
		if p.Kind != zzsim.Ascending {
			if ss := st.Stats[site]; ss == nil || ss.Permuted > 0 {
				out = append(out, site+"="+policyNames[p.Kind])
			}
		}
	}
	sort.Strings(out)
	return out
}

// checkCommitted: regenerating a shipped grammar reproduces the committed files.
func checkCommitted(p *poolEntry, w *recWriter, res *sim.Result) {
	for _, f := range w.files {
		disk, rerr := os.ReadFile(filepath.Join(filepath.Dir(p.Path), f.Name))
		if rerr != nil {
			res.Fail("C18.committed", p.ID+":"+f.Name, "grammar %s: generated file %q does not exist next to the grammar: %v", p.ID, f.Name, rerr)
			return
		}
		if string(disk) != w.content[f.Name] {
			d := boundedDiff(string(disk), w.content[f.Name])
			if len(d) > 1500 {
				d = d[:1500] + "\n..."
			}
			res.Fail("C18.committed", p.ID+":"+f.Name, "grammar %s: regenerating does not reproduce the committed %q\n%s", p.ID, f.Name, d)
			return
		}
	}
	res.Probe("committed-files-compared")
}

// boundedDiff is diff.LineDiff for contents of ordinary size; for very large ones (the
// line diff is quadratic) it shows the first differing line instead.
func boundedDiff(a, b string) string {
	if len(a) < 400_000 && len(b) < 400_000 {
		return diff.LineDiff(a, b)
	}
	la, lb := strings.Split(a, "\n"), strings.Split(b, "\n")
	for i := 0; i < len(la) || i < len(lb); i++ {
		var x, y string
		if i < len(la) {
			x = la[i]
		}
		if i < len(lb) {
			y = lb[i]
		}
		if x != y {
			return fmt.Sprintf("contents of %d and %d bytes, %d and %d lines; first difference at line %d:\n-%.200s\n+%.200s", len(a), len(b), len(la), len(lb), i+1, x, y)
		}
	}
	return ""
}

func fileSize(path string) int64 {
	fi, err := os.Stat(path)
	if err != nil {
		return 0
	}
	return fi.Size()
}

func main() {
	os.Exit(realMain())
}

func realMain() int {
	// children and reference runs do the generating: each gets a private HOME
	if len(os.Args) >= 2 && (os.Args[1] == "-ref" || os.Args[1] == "-child" || os.Args[1] == "-serve" || os.Args[1] == "-replay") || os.Getenv("ZZ_DETSIM_HOME_ALWAYS") != "" {
		setupHome()
		defer cleanupHome()
	}
	b, err := os.ReadFile(os.Getenv("ZZ_DETSIM_SETUP"))
	if err != nil {
		fmt.Fprintln(os.Stderr, "detsim: ZZ_DETSIM_SETUP:", err)
		return 2
	}
	if err := json.Unmarshal(b, &cfg); err != nil {
		fmt.Fprintln(os.Stderr, "detsim: setup:", err)
		return 2
	}
	if len(os.Args) >= 3 && os.Args[1] == "-ref" {
		// reference mode: one grammar, fresh process. With zzsim compiled in, every map is
		// walked ascending and the clock stands at zero; in the plain build (no rewrite)
		// the state is inert and the run is the natural one.
		for i := range cfg.Pool {
			if cfg.Pool[i].ID != os.Args[2] {
				continue
			}
			st := &zzsim.State{Epoch: time.Unix(0, 0).UTC()}
			w, err := generate(&cfg.Pool[i], st, false)
			out, _ := json.Marshal(&refEntry{ID: os.Args[2], Files: w.files, Err: errText(err)})
			fmt.Println(string(out))
			return 0
		}
		fmt.Fprintln(os.Stderr, "detsim: unknown grammar", os.Args[2])
		return 2
	}
	sim.Main(engine{}, os.Args[1:])
	return 0
}
