// lssim: deterministic simulation of `textmapper ls` (property C23).
//
// This file is mapped by the build overlay into package main of cmd/textmapper as a
// _test.go file, which is how the real, unexported startLS is driven. Real code: startLS,
// ls.Server, the compiler, the tm parser, go.lsp.dev/protocol dispatch, jsonrpc2
// conn/stream/handlers. Simulated: stdin/stdout (a duplex byte pipe whose fragmentation,
// EOF and write errors come from the tape), the LSP client (a script generated from the
// tape), and the order in which goroutines that want to write to the wire proceed.
package main

import (
	"bytes"
	"context"
	"encoding/json"
	"errors"
	"flag"
	"fmt"
	"io"
	"log"
	"os"
	"sort"
	"strconv"
	"strings"
	"sync"
	"testing"
	"testing/synctest"
	"time"
	"unicode/utf8"

	"github.com/inspirer/textmapper/compiler"
	"github.com/inspirer/textmapper/ls"
	"github.com/inspirer/textmapper/parsers/tm"
	"github.com/inspirer/textmapper/status"
	"github.com/inspirer/textmapper/zzverif/sim"
	"go.lsp.dev/jsonrpc2"
	lsp "go.lsp.dev/protocol"
	"go.uber.org/zap"
)

// ---------------------------------------------------------------------------------
// simulated transport (installed through the rewritten cmd/textmapper/ls.go)

type zzReadCloser interface {
	Read(p []byte) (int, error)
	Close() error
}

type zzWriteCloser interface {
	Write(p []byte) (int, error)
	Close() error
}

var (
	zzStdin  zzReadCloser  = os.Stdin
	zzStdout zzWriteCloser = os.Stdout
)

var errClosedPipe = errors.New("zzverif: read/write on closed pipe")
var errEPIPE = errors.New("zzverif: write: broken pipe (injected)")

type simIn struct {
	ch     chan []byte // simulator -> reader; created inside the bubble
	buf    []byte
	closed chan struct{}
	once   sync.Once
	reads  int
}

func (p *simIn) Read(b []byte) (int, error) {
	if len(p.buf) == 0 {
		select {
		case chunk, ok := <-p.ch:
			if !ok {
				return 0, io.EOF
			}
			p.buf = chunk
		case <-p.closed:
			return 0, errClosedPipe
		}
	}
	p.reads++
	n := copy(b, p.buf)
	p.buf = p.buf[n:]
	return n, nil
}

func (p *simIn) Close() error {
	p.once.Do(func() { close(p.closed) })
	return nil
}

type simOut struct {
	mu       sync.Mutex
	data     []byte
	closed   bool
	failFrom int // fail the n-th Write call from now (1 = next); 0 = never
	dead     bool
	writes   int
	tornAt   int // len(data) at the moment the client died; -1 while alive
}

func (o *simOut) Write(p []byte) (int, error) {
	o.mu.Lock()
	defer o.mu.Unlock()
	o.writes++
	if o.closed {
		return 0, errClosedPipe
	}
	if o.dead {
		return 0, errEPIPE
	}
	if o.failFrom > 0 {
		o.failFrom--
		if o.failFrom == 0 {
			o.dead = true
			o.tornAt = len(o.data)
			return 0, errEPIPE
		}
	}
	o.data = append(o.data, p...)
	return len(p), nil
}

func (o *simOut) Close() error {
	o.mu.Lock()
	o.closed = true
	o.mu.Unlock()
	return nil
}

// ---------------------------------------------------------------------------------
// write-order yield: goroutines about to put a frame on the wire park here (holding no
// lock) until the simulator releases them.

type parked struct {
	key string // what it is about to write: "resp:<id>" or "notif:<method>#<ordinal>"
	rel chan struct{}
}

type yard struct {
	mu     sync.Mutex
	parked []*parked
	seq    map[string]int
	free   bool // when set, writers are not parked any more (shutdown drain)
}

func (y *yard) hook(msg jsonrpc2.Message) {
	var key string
	switch m := msg.(type) {
	case *jsonrpc2.Response:
		key = "resp:" + fmt.Sprint(m.ID())
	case *jsonrpc2.Notification:
		key = "notif:" + m.Method()
	case *jsonrpc2.Call:
		key = "call:" + m.Method()
	default:
		key = fmt.Sprintf("other:%T", msg)
	}
	y.park(key)
}

// park blocks the calling goroutine (holding no lock) until the simulator releases it.
func (y *yard) park(key string) {
	y.mu.Lock()
	if y.free {
		y.mu.Unlock()
		return
	}
	y.seq[key]++
	p := &parked{key: fmt.Sprintf("%s#%d", key, y.seq[key]), rel: make(chan struct{})}
	y.parked = append(y.parked, p)
	y.mu.Unlock()
	<-p.rel
}

// yieldCtx wraps the context of one request (installed through the scratch copy of
// jsonrpc2.CancelHandler). Each Done() call — i.e. each cancellation poll of the tm
// parser running inside the handler body — is a yield point: the handler parks and the
// simulator may deliver more client bytes (for instance the $/cancelRequest aimed at this
// very request) before letting it look at the channel. This is how a cancellation lands
// in the MIDDLE of a handler body, at exactly the instants at which the body can observe it.
type yieldCtx struct {
	context.Context
	id string
	y  *yard
}

func (c yieldCtx) Done() <-chan struct{} {
	c.y.park("poll:" + c.id)
	return c.Context.Done()
}

func (y *yard) wrapCtx(ctx context.Context, id jsonrpc2.ID) context.Context {
	return yieldCtx{Context: ctx, id: fmt.Sprint(id), y: y}
}

// snapshot returns the parked writers in a canonical order (by key), so that the tape
// indexes into something that does not depend on arrival order.
func (y *yard) snapshot() []*parked {
	y.mu.Lock()
	defer y.mu.Unlock()
	out := append([]*parked{}, y.parked...)
	sort.Slice(out, func(i, j int) bool { return out[i].key < out[j].key })
	return out
}

func (y *yard) release(p *parked) {
	y.mu.Lock()
	for i, q := range y.parked {
		if q == p {
			y.parked = append(y.parked[:i], y.parked[i+1:]...)
			break
		}
	}
	y.mu.Unlock()
	close(p.rel)
}

// ---------------------------------------------------------------------------------
// UTF-16 position arithmetic of the harness (independent of ls/server.go)

func lineStart(text string, line int) (int, bool) {
	off := 0
	for ; line > 0; line-- {
		nl := strings.IndexByte(text[off:], '\n')
		if nl < 0 {
			return 0, false
		}
		off += nl + 1
	}
	return off, true
}

func lineEnd(text string, start int) int {
	nl := strings.IndexByte(text[start:], '\n')
	if nl < 0 {
		return len(text)
	}
	return start + nl
}

// posToOffset decodes an LSP position. ok is false when the line does not exist, the
// column is past the end of line or falls between the halves of a surrogate pair.
func posToOffset(text string, line, char uint32) (int, bool) {
	if line > uint32(len(text)) {
		return 0, false
	}
	off, ok := lineStart(text, int(line))
	if !ok {
		return 0, false
	}
	end := lineEnd(text, off)
	col := uint32(0)
	for off < end && col < char {
		r, w := utf8.DecodeRuneInString(text[off:])
		if r > 0xffff {
			col += 2
			if col > char {
				return 0, false
			}
		} else {
			col++
		}
		off += w
	}
	if col != char {
		return 0, false
	}
	return off, true
}

func offsetToPos(text string, off int) (line, char uint32) {
	if off > len(text) {
		off = len(text)
	}
	ls := 0
	for i := 0; i < off; i++ {
		if text[i] == '\n' {
			line++
			ls = i + 1
		}
	}
	for _, r := range text[ls:off] {
		if r > 0xffff {
			char += 2
		} else {
			char++
		}
	}
	return line, char
}

func utf16Len(s string) uint32 {
	var n uint32
	for _, r := range s {
		if r > 0xffff {
			n += 2
		} else {
			n++
		}
	}
	return n
}

type pos struct{ Line, Character uint32 }
type rng struct{ Start, End pos }

func posLess(a, b pos) bool {
	return a.Line < b.Line || a.Line == b.Line && a.Character < b.Character
}

// inDoc is invariant I3: the position denotes a place inside text.
func inDoc(text string, p pos) bool {
	off, ok := lineStart(text, int(min(p.Line, uint32(len(text)+1))))
	if !ok || p.Line > uint32(len(text)) {
		return false
	}
	return p.Character <= utf16Len(text[off:lineEnd(text, off)])
}

// ---------------------------------------------------------------------------------
// client script

type opKind int

const (
	opInitialize opKind = iota
	opInitialized
	opDidOpen
	opDidChange
	opDidClose
	opDidSave
	opDefinition
	opCancel
	opUnknownCall
	opUnknownNotif
	opShutdown
	opExit
	opGarbage
)

var opNames = [...]string{"initialize", "initialized", "didOpen", "didChange", "didClose", "didSave", "definition", "cancel", "unknownCall", "unknownNotif", "shutdown", "exit", "garbage"}

type op struct {
	kind    opKind
	id      any // int or string; nil for notifications
	uri     string
	version int
	text    string
	empty   bool // didChange with an empty contentChanges array
	earlier []string // didChange: full-text changes preceding the final one in the same notification
	// didChange sent as a ranged edit of the previous content (only when the server's
	// initialize result announced incremental synchronisation)
	incr     bool
	incrRng  rng
	incrText string
	pos     pos
	target  any // cancel target
	frame   []byte

	// model (sequential execution in send order)
	docOpen  bool   // definition: the document is open at this point
	docText  string // definition: latest content at this point
	posValid bool
	posOff   int
	onIdent  string // identifier under the cursor, if the position was aimed at one
	nonFile  bool
}

func (o *op) describe() string {
	d := opNames[o.kind]
	if o.id != nil {
		d += fmt.Sprintf("#%v", o.id)
	}
	switch o.kind {
	case opDidOpen, opDidChange:
		d += fmt.Sprintf(" %s v%d %dB", o.uri, o.version, len(o.text))
		if o.empty {
			d += " no-content-changes"
		}
		if len(o.earlier) > 0 {
			d += fmt.Sprintf(" batched-after-%d-earlier-changes", len(o.earlier))
		}
		if o.incr {
			d += fmt.Sprintf(" as-edit[%d:%d-%d:%d]+%dB", o.incrRng.Start.Line, o.incrRng.Start.Character, o.incrRng.End.Line, o.incrRng.End.Character, len(o.incrText))
		}
	case opDidClose, opDidSave:
		d += " " + o.uri
	case opDefinition:
		d += fmt.Sprintf(" %s@%d:%d", o.uri, o.pos.Line, o.pos.Character)
		if o.onIdent != "" {
			d += "(" + o.onIdent + ")"
		}
	case opCancel:
		d += fmt.Sprintf(" ->%v", o.target)
	case opInitialize:
		d += fmt.Sprintf(" folders=%d", o.version)
	}
	return d
}

// extraHeader makes the client send the optional Content-Type header as well (set per script).
var extraHeader bool

func frameOf(v any) []byte {
	b, err := json.Marshal(v)
	if err != nil {
		panic(err)
	}
	if extraHeader {
		return []byte(fmt.Sprintf("Content-Type: application/vscode-jsonrpc; charset=utf-8\r\nContent-Length: %d\r\n\r\n%s", len(b), b))
	}
	return []byte(fmt.Sprintf("Content-Length: %d\r\n\r\n%s", len(b), b))
}

type obj = map[string]any

func (o *op) build() {
	msg := obj{"jsonrpc": "2.0"}
	if o.id != nil {
		msg["id"] = o.id
	}
	td := obj{"uri": o.uri}
	switch o.kind {
	case opInitialize:
		msg["method"] = "initialize"
		var folders []obj
		for i := 0; i < o.version; i++ {
			folders = append(folders, obj{"uri": fmt.Sprintf("file:///ws%d", i), "name": fmt.Sprintf("ws%d", i)})
		}
		msg["params"] = obj{"processId": 1, "rootUri": "file:///ws0", "capabilities": obj{}, "workspaceFolders": folders}
	case opInitialized:
		msg["method"] = "initialized"
		msg["params"] = obj{}
	case opDidOpen:
		msg["method"] = "textDocument/didOpen"
		msg["params"] = obj{"textDocument": obj{"uri": o.uri, "languageId": "textmapper", "version": o.version, "text": o.text}}
	case opDidChange:
		msg["method"] = "textDocument/didChange"
		var changes []obj
		for _, t := range o.earlier {
			changes = append(changes, obj{"text": t})
		}
		if o.incr {
			changes = append(changes, obj{"range": obj{
				"start": obj{"line": o.incrRng.Start.Line, "character": o.incrRng.Start.Character},
				"end":   obj{"line": o.incrRng.End.Line, "character": o.incrRng.End.Character}}, "text": o.incrText})
		} else {
			changes = append(changes, obj{"text": o.text})
		}
		if o.empty {
			changes = []obj{}
		}
		msg["params"] = obj{"textDocument": obj{"uri": o.uri, "version": o.version}, "contentChanges": changes}
	case opDidClose:
		msg["method"] = "textDocument/didClose"
		msg["params"] = obj{"textDocument": td}
	case opDidSave:
		msg["method"] = "textDocument/didSave"
		msg["params"] = obj{"textDocument": td}
	case opDefinition:
		msg["method"] = "textDocument/definition"
		msg["params"] = obj{"textDocument": td, "position": obj{"line": o.pos.Line, "character": o.pos.Character}}
	case opCancel:
		msg["method"] = "$/cancelRequest"
		msg["params"] = obj{"id": o.target}
	case opUnknownCall:
		msg["method"] = "textDocument/hover"
		msg["params"] = obj{"textDocument": td, "position": obj{"line": 0, "character": 0}}
	case opUnknownNotif:
		msg["method"] = "$/setTrace"
		msg["params"] = obj{"value": "off"}
	case opShutdown:
		msg["method"] = "shutdown"
	case opExit:
		msg["method"] = "exit"
	case opGarbage:
		o.frame = []byte("Content-Length: 12\r\nX-Broken\r\n\r\n{not json at all")
		return
	}
	o.frame = frameOf(msg)
}

// expected publishDiagnostics, in send order
type expDiag struct {
	uri      string
	version  int
	text     string
	optional bool // an empty change list: publishing for it is allowed, not required
	opIndex  int
}

// ---------------------------------------------------------------------------------
// document generator

var identRe = func(c byte) bool {
	return c == '_' || c >= 'a' && c <= 'z' || c >= 'A' && c <= 'Z'
}

type identOcc struct {
	off, end int
}

func identOccurrences(text string) []identOcc {
	var out []identOcc
	for i := 0; i < len(text); {
		c := text[i]
		if identRe(c) {
			j := i + 1
			for j < len(text) && (identRe(text[j]) || text[j] >= '0' && text[j] <= '9') {
				j++
			}
			out = append(out, identOcc{i, j})
			i = j
		} else {
			i++
		}
	}
	return out
}

var unicodeBits = []string{"π", "→", "😀", "é", "日本", "𝒳", "ß", " ", "😀😀", "ж"}

var baseGrammars []string

const synthHeader = "language demo(go);\n\nlang = \"demo\"\npackage = \"example.com/demo\"\neventBased = true\n\n"

var lexLines = []string{
	"ident: /[a-zA-Z_]+/",
	"num: /[0-9]+/",
	"'+': /\\+/",
	"'-': /-/",
	"'(': /\\(/",
	"')': /\\)/",
	"';': /;/",
	"'π': /π/",
	"'→😀': /→/",
	"str {string}: /\"[^\"]*\"/",
	"ws: /[ \\t\\r\\n]+/ (space)",
	"comment: /#[^\\n]*/ (space)",
	"<inStr> strPart: /x+/",
	"%x inStr;",
	"kw_if: /if/ (class)",
	"invalid_token:",
	"ident2: /[a-z]+/ -1",
	"invalid_token: /x/ (space)",
	"eoi: /\\x00/ (space)",
	"error: /e/ (space)",
	"ws: /[ \\t]*/ (space)",
	"idx: /{letter}+/",
	"letters = /[a-zA-Z_]+{digitz}/",
	"idl: /{letters}/",
	"rec1 = /a{rec2}/",
	"rec2 = /b{rec1}/",
	"idr: /{rec1}/",
	"badre1: /[a-/",
	"badre2: /\\p{Foo}+/",
	"badre3: /a{3,2}/",
	"badre4: /(abc/",
	"badre5: /a**/",
	"dupname: /x/",
	"dupname: /y/",
	"neg: /[^\\x00-\\U0010ffff]/",
	"<undefState> st1: /q/",
	"brackets: /\\(/ (class)",
	"%brackets '(' ')';",
}

var parseLines = []string{
	"%input root;",
	"root: item+ ;",
	"item -> Item: ident '+' ident | num ;",
	"item2 -> Item2: '(' item ')' | item2 '-' num ;",
	"expr -> Expr: expr '+' expr | num ;",
	"%left '+' '-';",
	"stmt: ident ';' | 'π' ident '→😀' undefinedSym ;",
	"opt: ident? num* (item separator '+')+ ;",
	"tpl<flag A>: [A] ident | [!A] num ;",
	"use: tpl<+A> tpl<~A> ;",
	"la: (?= item) ident | (?= !item) num ;",
	"root: item ;",
	"dangling: missingOne missingTwo ;",
	"%interface Node, Other;",
	"named -> Named: left=ident '+' right=ident ;",
	"typed {int}: num { $$ = 1 } ;",
	"set1: set(ident | num)+ ;",
	"/* π😀 */ item3: /* ж */ ident /* → */ num ;",
	"'π' : ;",
	"optuser: item itemopt ident identopt exprmain expropt ;",
	"manyopt: ident? num? '+'? '-'? '('? ')'? ';'? 'π'? str? ident ;",
	"%assert empty set(first item & first item2);",
	"%assert nonempty set(first undefinedThing);",
	"%left '+' '+';",
	"%right undefinedTok;",
	"use2: tpl<+B> tpl<A: C> ;",
	"inline inl: ident num ;",
	"inline inl: num ;",
	"la2: (?= !undefinedLa) ident | (?= item & !item2) num ;",
	"prec1: ident %prec undefinedPrec | num %prec '+' ;",
	"rep: ident{a} ident{a} { $a $b ${left().offset} } ;",
	"%inject comment -> Comment;",
	"%inject undefinedTok2 -> Foo/Bar,Baz;",
	"arrow -> Arrow/Flag1,Flag1: ident -> Sub/Flag1 ;",
	"%interface Arrow, Item;",
	"%expect 3;",
	"%generate afterIdent = set(follow ident);",
	"%flag A = 5;",
	"%lookahead flag LF = true;",
	"%input root no-eoi, item;",
	"exprmain: expr expropt ;",
	"bad1: ident '😀😀z' num ;",
	"bad2: \"é😀\" '𝒳' ident ;",
	"/* 日本 */ bad3: '😀' '😀😀' ;",
	"%generate afterIdent = set(follow ident);",
}

// complete, semantically valid grammars (every reference resolves), so that the later
// phases of the compiler — template instantiation, rule expansion, table construction — run
const validDoc1 = synthHeader + ":: lexer\n\nident: /[a-zA-Z_]+/\nnum: /[0-9]+/\n'+': /\\+/\n'-': /-/\n'(': /\\(/\n')': /\\)/\n';': /;/\n'π': /π/\nstr {string}: /\"[^\"]*\"/\nws: /[ \\t\\r\\n]+/ (space)\n\n:: parser\n\n%input root;\n\nroot: (item | manyopt)+ ;\nitem -> Item: ident '+' ident ';' | num ';' ;\n/* π😀 */ manyopt: ident? num? '+'? '-'? '('? ')'? 'π'? str? str? ';' ;\n"
const validDoc2 = synthHeader + ":: lexer\n\nident: /[a-zA-Z_]+/\nnum: /[0-9]+/\n'+': /\\+/\n'*': /\\*/\n'(': /\\(/\n')': /\\)/\n';': /;/\nws: /[ \\t\\r\\n]+/ (space)\n\n:: parser\n\n%input root;\n%left '+';\n%left '*';\n\nroot -> Root: stmt+ ;\nstmt -> Stmt: expr ';' ;\nexpr -> Expr: expr '+' expr | expr '*' expr | '(' expr ')' | ident | num ;\n"

// deeply nested groups, lookaheads and quantifiers around plain symbol references
const validDoc3 = synthHeader + ":: lexer\n\nident: /[a-zA-Z_]+/\nnum: /[0-9]+/\n'(': /\\(/\n')': /\\)/\n';': /;/\nws: /[ \\t\\r\\n]+/ (space)\n\n:: parser\n\n%input root;\n\nroot: deep+ ;\ndeep -> Deep: '(' ((((((((((((ident num?)))))))))))) ')' ';' | nested ;\nnested: (?= deep) ((((((((((((num)))))))))))) ';' ;\n"

// goldenSymbols: documents whose structure is known to the harness. Every occurrence of
// the listed words in them is a symbol (declared in the same document), so go-to-definition
// on it must find something. This is the one place where an EMPTY answer is judged.
var goldenSymbols = map[string][]string{
	validDoc1: {"root", "item", "manyopt", "ident", "num", "str"},
	validDoc2: {"root", "stmt", "expr", "ident", "num"},
	validDoc3: {"root", "deep", "nested", "ident", "num"},
}

func loadBaseGrammars() {
	baseGrammars = append(baseGrammars, validDoc1, validDoc2, validDoc3)
	repo := os.Getenv("VERIF_REPO")
	if repo == "" {
		repo = "/repo"
	}
	for _, f := range []string{"parsers/json/json.tm", "parsers/simple/simple.tm", "compiler/testdata/lexer.tmerr", "compiler/testdata/parser.tmerr", "compiler/testdata/templ_input.tmerr"} {
		if b, err := os.ReadFile(repo + "/" + f); err == nil && len(b) < 16<<10 && utf8.Valid(b) {
			s := strings.ReplaceAll(strings.ReplaceAll(string(b), "«", ""), "»", "")
			baseGrammars = append(baseGrammars, s)
		}
	}
}

// documents at the corners of the grammar's structure
var cornerDocs = []string{
	"", " ", "\n", "\n\n\n", "\t \r\n", "\ufeff", "\ufeff\n", "language", "language x", "language x(go)", "language x(go);", "language x(go);\n",
	"language x(go);\n\n:: lexer\n", "language x(go);\n\n:: lexer\n\nid: /[a-z]+/\n", "language x(go);\n\n:: parser\n", "language x(go);\n\n:: parser\n\n%input a;\na: ;\n",
	":: lexer\n\nid: /x/\n", ":: parser\n\na: ;\n", "language x(go);\nlanguage y(go);\n:: lexer\nid: /x/\n",
	synthHeader + ":: lexer\n\nid: /[a-z]+/\n\n:: parser\n\n%input id;\n",
	synthHeader + ":: lexer\n\nid: /[a-z]+/\n\n:: parser\n\n%input root;\nroot: root ;\n",
	synthHeader + ":: lexer\n\nid: /[a-z]+/\n\n:: parser\n\n%input root;\nroot: set() ;\n",
	synthHeader + ":: lexer\n\nid: /[a-z]+/\n\n:: parser\n\n%input root;\nroot: tpl<+Q> ;\ntpl<flag Q>: [Q] id ;\n%flag Q;\n",
	synthHeader + ":: lexer\n\nid: /[a-z]+/\ns: \"abc",
	synthHeader + ":: lexer\n\nid: /[a-z]+",
	synthHeader + ":: lexer\n\nid {int}: /[a-z]+/ { $$ = 1",
	synthHeader + ":: lexer\n\nws: /[ \\t]*/ (space)\nid: /{letter}+/\n\n:: parser\n\n%input root;\nroot: id ;\n",
	synthHeader + ":: lexer\n\nid: /[a-z]+/\n\n:: parser\n\n%input root;\nroot: " + strings.Repeat("(", 200) + "id" + strings.Repeat(")", 200) + " ;\n",
	synthHeader + ":: lexer\n\nid: /[a-z]+/\n\n:: parser\n\n%input root;\nroot: id ;\n\n%%\n{{define \"x\"}}\n",
	"language x(go);\n\nlang = \"x\"\neventBased = \"yes\"\nunknownOption = 5\n:: lexer\nid: /x/\n",
}

func genDoc(src *sim.Src, prev string) string {
	f := src.Fork()
	var text string
	if f.Chance(1, 12) {
		return cornerDocs[f.Draw(len(cornerDocs))]
	}
	if f.Chance(1, 10) {
		return []string{validDoc1, validDoc2, validDoc3}[f.Draw(3)] // unmodified: see goldenSymbols
	}
	switch {
	case prev != "" && f.Chance(6, 10):
		text = prev // an edit of the previous version
	case len(baseGrammars) > 0 && f.Chance(2, 10):
		text = baseGrammars[f.Draw(len(baseGrammars))]
	case f.Chance(1, 30):
		return ""
	default:
		var b strings.Builder
		b.WriteString(synthHeader)
		b.WriteString(":: lexer\n\n")
		n := 3 + f.Draw(8)
		for i := 0; i < n; i++ {
			b.WriteString(lexLines[f.Draw(len(lexLines))])
			b.WriteString("\n")
		}
		if f.Chance(9, 10) {
			b.WriteString("\n:: parser\n\n")
			n = 2 + f.Draw(8)
			for i := 0; i < n; i++ {
				b.WriteString(parseLines[f.Draw(len(parseLines))])
				b.WriteString("\n")
			}
		}
		text = b.String()
	}
	// mutations
	nm := f.Draw(4)
	for i := 0; i < nm && len(text) > 0; i++ {
		lines := strings.SplitAfter(text, "\n")
		switch f.Draw(9) {
		case 0: // delete a line
			k := f.Draw(len(lines))
			lines = append(lines[:k], lines[k+1:]...)
			text = strings.Join(lines, "")
		case 1: // duplicate a line
			k := f.Draw(len(lines))
			lines = append(lines[:k+1], lines[k:]...)
			text = strings.Join(lines, "")
		case 2: // non-ASCII text ahead of identifiers on the same line
			k := f.Draw(len(lines))
			bit := unicodeBits[f.Draw(len(unicodeBits))]
			switch f.Draw(3) {
			case 0:
				lines[k] = "/* " + bit + " */ " + lines[k]
			case 1:
				lines[k] = "'" + bit + "' " + lines[k]
			case 2:
				if occ := identOccurrences(lines[k]); len(occ) > 0 {
					o := occ[f.Draw(len(occ))]
					lines[k] = lines[k][:o.off] + "/*" + bit + "*/" + lines[k][o.off:]
				}
			}
			text = strings.Join(lines, "")
		case 3: // delete a byte range (rune aligned)
			p := f.Draw(len(text))
			for p > 0 && !utf8.RuneStart(text[p]) {
				p--
			}
			q := p + 1 + f.Draw(6)
			if q > len(text) {
				q = len(text)
			}
			for q < len(text) && !utf8.RuneStart(text[q]) {
				q++
			}
			text = text[:p] + text[q:]
		case 4: // unbalance brackets / quotes
			p := f.Draw(len(text) + 1)
			for p > 0 && p < len(text) && !utf8.RuneStart(text[p]) {
				p--
			}
			text = text[:p] + [...]string{"(", ")", "{", "}", "'", "\"", "/", "[", "<", "%%", "{ $$ = ", "/*"}[f.Draw(12)] + text[p:]
		case 5: // truncate
			p := f.Draw(len(text) + 1)
			for p > 0 && p < len(text) && !utf8.RuneStart(text[p]) {
				p--
			}
			text = text[:p]
		case 6: // CRLF / no final newline / BOM
			switch f.Draw(3) {
			case 0:
				text = strings.ReplaceAll(strings.ReplaceAll(text, "\r\n", "\n"), "\n", "\r\n")
			case 1:
				text = strings.TrimRight(text, "\n")
			case 2:
				text = "\ufeff" + text
			}
		case 7: // rename an identifier occurrence to an undefined one
			if occ := identOccurrences(text); len(occ) > 0 {
				o := occ[f.Draw(len(occ))]
				text = text[:o.off] + "zz" + text[o.off:o.end] + text[o.end:]
			}
		case 8: // swap two lines
			if len(lines) > 1 {
				a, b := f.Draw(len(lines)), f.Draw(len(lines))
				lines[a], lines[b] = lines[b], lines[a]
				text = strings.Join(lines, "")
			}
		}
	}
	if f.Chance(1, 6) && len(text) > 0 && len(text) < 4<<10 {
		// long documents: the parser polls its context every few hundred tokens
		lines := strings.SplitAfter(text, "\n")
		for len(text) < 5<<10 {
			text += lines[f.Draw(len(lines))]
			if !strings.HasSuffix(text, "\n") {
				text += "\n"
			}
		}
	}
	if f.Chance(1, 150) && len(text) > 0 {
		// a big document: frames far larger than any I/O buffer on the way
		lines := strings.SplitAfter(text, "\n")
		var bb strings.Builder
		bb.WriteString(text)
		for bb.Len() < 90<<10 {
			bb.WriteString(lines[f.Draw(len(lines))])
		}
		return bb.String()
	}
	if len(text) > 6<<10 {
		text = text[:6<<10]
		for !utf8.ValidString(text) {
			text = text[:len(text)-1]
		}
	}
	return text
}

// ---------------------------------------------------------------------------------
// script generation + sequential reference model

type script struct {
	initialized bool // the script starts with initialize: the negotiated capabilities apply
	ops   []*op
	diags []*expDiag
	calls map[string]*op // by canonical id
}

func idKey(id any) string {
	switch v := id.(type) {
	case int:
		return "n" + strconv.Itoa(v)
	case string:
		return "s" + v
	case float64:
		return "n" + strconv.Itoa(int(v))
	}
	return fmt.Sprint(id)
}

type modelDoc struct {
	version int
	text    string
}

func genScript(src *sim.Src) *script {
	sc := &script{calls: map[string]*op{}}
	extraHeader = src.Chance(1, 5)
	docs := map[string]*modelDoc{}
	lastText := map[string]string{}
	nextID := 1
	newID := func() any {
		nextID++
		if src.Chance(1, 8) {
			return fmt.Sprintf("req-%d", nextID)
		}
		return nextID
	}
	uris := []string{"file:///ws0/a.tm", "file:///ws0/dir/b.tm", "file:///ws0/%D0%B6.tm"}
	nuris := 1 + src.Draw(3)
	if src.Chance(1, 6) {
		// documents outside the workspace folder(s) announced by initialize
		uris = []string{"file:///elsewhere/c.tm", "file:///ws0/a.tm", "file:///ws00/a.tm", "file:///d.tm"}
		nuris = 1 + src.Draw(4)
	}
	if src.Chance(1, 8) {
		// documents of other schemes that share their path with a file document (an
		// editor's diff view, a virtual file system): different documents all the same
		uris = []string{"file:///ws0/a.tm", "git:/ws0/a.tm?%7Bref%3AHEAD%7D", "vscode-vfs://github/ws0/a.tm", "vscode-vfs://gitlab/ws0/a.tm"}
		nuris = 2 + src.Draw(3)
	}
	if src.Chance(1, 8) {
		// documents that share a base name, differ only in letter case, or need percent
		// escapes: distinct URIs (with distinct decoded paths) are distinct documents
		uris = []string{"file:///ws0/a.tm", "file:///ws0/dir/a.tm", "file:///ws0/A.tm", "file:///ws0/dir%20x/a.tm", "file:///ws0/a.tm.tm"}
		nuris = 2 + src.Draw(4)
	}
	add := func(o *op) {
		o.build()
		sc.ops = append(sc.ops, o)
		if o.id != nil {
			sc.calls[idKey(o.id)] = o
		}
	}

	// initialize (almost always, with one workspace folder)
	if !src.Chance(1, 25) {
		folders := 1
		if src.Chance(1, 12) {
			folders = src.Draw(3)
		}
		add(&op{kind: opInitialize, id: 1, version: folders})
		sc.initialized = true
		if src.Chance(1, 3) {
			add(&op{kind: opInitialized})
		}
	}
	n := 2 + src.Draw(14)
	if src.Chance(1, 6) {
		n += src.Draw(24)
	}
	versions := map[string]int{}
	var callIDs []any
	for i := 0; i < n; i++ {
		uri := uris[src.Draw(nuris)]
		nonFile := false
		if src.Chance(1, 60) {
			uri = "untitled:Untitled-1"
			nonFile = true
		}
		d := docs[uri]
		var kind opKind
		if d == nil {
			kind = []opKind{opDidOpen, opDidOpen, opDidOpen, opDidChange, opDefinition, opDidClose, opDidSave, opUnknownCall}[src.Pick(40, 20, 10, 6, 6, 3, 3, 3)]
		} else {
			kind = []opKind{opDidChange, opDefinition, opDidClose, opDidOpen, opDidSave, opCancel, opUnknownCall, opUnknownNotif, opShutdown}[src.Pick(34, 38, 6, 3, 3, 9, 3, 2, 1)]
		}
		switch kind {
		case opDidOpen, opDidChange:
			versions[uri]++
			v := versions[uri]
			if src.Chance(1, 15) {
				v = src.Draw(5) // non-monotonic version
			}
			o := &op{kind: kind, uri: uri, version: v, nonFile: nonFile}
			if kind == opDidChange && src.Chance(1, 40) {
				o.empty = true
				// a version number no other change uses, so that an (optional) publish for
				// it can never be mistaken for the publish of a neighbouring change
				v = 1000 + i
				o.version = v
				add(o)
				if d != nil {
					sc.diags = append(sc.diags, &expDiag{uri: uri, version: v, text: d.text, optional: true, opIndex: len(sc.ops) - 1})
					d.version = v
				}
				continue
			}
			if kind == opDidChange && src.Chance(1, 25) {
				// several full-document changes batched in one notification: each moves the
				// document to a new state, the last one is the content of this version
				for k := 1 + src.Draw(2); k > 0; k-- {
					o.earlier = append(o.earlier, genDoc(src, lastText[uri]))
				}
			}
			o.text = genDoc(src, lastText[uri])
			lastText[uri] = o.text
			if kind == opDidChange && d != nil && len(o.earlier) == 0 && negotiatedSync == 2 && sc.initialized && src.Chance(3, 4) {
				// the server announced incremental synchronisation: a conforming client sends
				// the difference between the previous content and the new one
				o.incr = true
				o.incrRng, o.incrText = editBetween(d.text, o.text)
			}
			add(o)
			docs[uri] = &modelDoc{version: v, text: o.text}
			sc.diags = append(sc.diags, &expDiag{uri: uri, version: v, text: o.text, opIndex: len(sc.ops) - 1})
		case opDidClose:
			add(&op{kind: opDidClose, uri: uri, nonFile: nonFile})
			delete(docs, uri)
		case opDidSave:
			add(&op{kind: opDidSave, uri: uri, nonFile: nonFile})
		case opDefinition:
			o := &op{kind: opDefinition, id: newID(), uri: uri, nonFile: nonFile}
			if d != nil {
				o.docOpen = true
				o.docText = d.text
			}
			text := o.docText
			occ := identOccurrences(text)
			switch {
			case len(occ) > 0 && !src.Chance(1, 6):
				// inside (or at either edge of) an identifier occurrence of the latest text;
				// prefer occurrences that follow non-ASCII text on their line
				var special []identOcc
				for _, oc := range occ {
					ls := strings.LastIndexByte(text[:oc.off], '\n') + 1
					if !isASCII(text[ls:oc.off]) {
						special = append(special, oc)
					}
				}
				oc := occ[src.Draw(len(occ))]
				if len(special) > 0 && src.Chance(1, 2) {
					oc = special[src.Draw(len(special))]
				}
				off := oc.off + src.Draw(oc.end-oc.off+1)
				l, c := offsetToPos(text, off)
				o.pos = pos{l, c}
				o.onIdent = text[oc.off:oc.end]
			case src.Chance(1, 2):
				// arbitrary valid offset
				off := src.Draw(len(text) + 1)
				for off > 0 && off < len(text) && !utf8.RuneStart(text[off]) {
					off--
				}
				l, c := offsetToPos(text, off)
				o.pos = pos{l, c}
			default:
				// invalid: past end of line, unknown line, huge values, between surrogates
				switch src.Draw(4) {
				case 0:
					o.pos = pos{uint32(src.Draw(3)), 100000}
				case 1:
					o.pos = pos{uint32(strings.Count(text, "\n") + 1 + src.Draw(3)), 0}
				case 2:
					o.pos = pos{4294967295, 4294967295}
				case 3:
					if i := strings.Index(text, "😀"); i >= 0 {
						l, c := offsetToPos(text, i)
						o.pos = pos{l, c + 1}
					} else {
						o.pos = pos{0, 4294967295}
					}
				}
			}
			if o.docOpen {
				o.posOff, o.posValid = posToOffset(text, o.pos.Line, o.pos.Character)
			}
			add(o)
			callIDs = append(callIDs, o.id)
		case opCancel:
			var target any = 99999
			if len(callIDs) > 0 && !src.Chance(1, 8) {
				target = callIDs[src.Draw(len(callIDs))]
			}
			add(&op{kind: opCancel, target: target})
		case opUnknownCall:
			add(&op{kind: opUnknownCall, id: newID(), uri: uri, nonFile: nonFile})
		case opUnknownNotif:
			add(&op{kind: opUnknownNotif})
		case opShutdown:
			add(&op{kind: opShutdown, id: newID()})
			if src.Chance(1, 2) {
				add(&op{kind: opExit})
			}
		}
		// a definition is frequently followed at once by its cancellation
		if kind == opDefinition && src.Chance(1, 7) {
			add(&op{kind: opCancel, target: sc.ops[len(sc.ops)-1].id})
		}
	}
	return sc
}

// negotiatedSync is the text document synchronisation kind the server announces in its
// initialize result (0 none, 1 full, 2 incremental; -1 unknown), read once per process from
// a real initialize exchange. The simulated client honours it the way an editor does.
var negotiatedSync = -1

// editBetween returns the single ranged edit that turns old into new: the range of old
// between the longest common prefix and suffix (cut at character boundaries), in UTF-16
// positions, and the replacement text.
func editBetween(old, new string) (rng, string) {
	p := 0
	for p < len(old) && p < len(new) && old[p] == new[p] {
		p++
	}
	for p > 0 && (p < len(old) && !utf8.RuneStart(old[p]) || p < len(new) && !utf8.RuneStart(new[p])) {
		p--
	}
	so, sn := len(old), len(new)
	for so > p && sn > p && old[so-1] == new[sn-1] {
		so--
		sn--
	}
	for so < len(old) && !utf8.RuneStart(old[so]) {
		so++
		sn++
	}
	sl, sc := offsetToPos(old, p)
	el, ec := offsetToPos(old, so)
	return rng{pos{sl, sc}, pos{el, ec}}, new[p:sn]
}

func probeSyncKind(t *testing.T) (kind int) {
	kind = -1
	defer func() { recover() }()
	synctest.Test(t, func(t *testing.T) {
		in := &simIn{ch: make(chan []byte, 1), closed: make(chan struct{})}
		out := &simOut{tornAt: -1}
		zzStdin, zzStdout = in, out
		jsonrpc2.VerifBeforeWrite = nil
		jsonrpc2.VerifWrapCtx = nil
		done := make(chan struct{})
		go func() {
			startLS(context.Background(), nil)
			close(done)
		}()
		synctest.Wait()
		o := &op{kind: opInitialize, id: 1, version: 1}
		extraHeader = false
		o.build()
		in.ch <- o.frame
		synctest.Wait()
		out.mu.Lock()
		data := append([]byte(nil), out.data...)
		out.mu.Unlock()
		frames, _, _ := parseFrames(data)
		for _, f := range frames {
			var m struct {
				ID     json.RawMessage `json:"id"`
				Result struct {
					Capabilities struct {
						Sync json.RawMessage `json:"textDocumentSync"`
					} `json:"capabilities"`
				} `json:"result"`
			}
			if json.Unmarshal(f, &m) != nil || len(m.Result.Capabilities.Sync) == 0 {
				continue
			}
			var n int
			var ob struct {
				Change int `json:"change"`
			}
			if json.Unmarshal(m.Result.Capabilities.Sync, &n) == nil {
				kind = n
			} else if json.Unmarshal(m.Result.Capabilities.Sync, &ob) == nil {
				kind = ob.Change
			}
		}
		close(in.ch)
		in.Close()
		synctest.Wait()
		<-done
	})
	return kind
}

// isSymbolName: Textmapper identifiers are plain names (dashes allowed inside) or
// quoted names such as '+', 'b' or "else" (textmapper.tm: identifier<+Str>).
func isSymbolName(name string) bool {
	if len(name) >= 2 && (name[0] == '\'' || name[0] == '"') && name[len(name)-1] == name[0] && !strings.Contains(name, "\n") {
		return true // quoted_id or scon: the tm grammar allows both wherever a symbol is named
	}
	if name == "" || !identRe(name[0]) {
		return false
	}
	for i := 0; i < len(name); i++ {
		c := name[i]
		if !(identRe(c) || c >= '0' && c <= '9' || c == '-') {
			return false
		}
	}
	return true
}

func isASCII(s string) bool {
	for i := 0; i < len(s); i++ {
		if s[i] >= 0x80 {
			return false
		}
	}
	return true
}

// ---------------------------------------------------------------------------------
// independent expectations

type expectedDiag struct {
	endLine1   pos // end of the span clipped to its first line (what a single-line range shows)
	msg        string
	syntax     bool // an (unrecovered) syntax error: any message mentioning it matches
	hasRange   bool
	start, end pos
}

// expectedDiagnostics calls the (pure) compiler on text and converts byte offsets to
// UTF-16 positions with the harness's own arithmetic.
func expectedDiagnostics(filename, text string) []expectedDiag {
	_, err := compiler.Compile(context.Background(), filename, text, compiler.Params{CheckOnly: true, Verbose: true})
	var out []expectedDiag
	var se tm.SyntaxError
	if errors.As(err, &se) {
		// compiler.Compile hands the parser's SyntaxError through without a source origin
		// (status.FromError gives it an empty SourceRange). The property only asks for a
		// range inside the document, so this diagnostic is held to I3 alone.
		return []expectedDiag{{msg: se.Error(), syntax: true}}
	}
	for _, p := range status.FromError(err) {
		e := expectedDiag{msg: p.Msg}
		o := p.Origin
		if o.Line > 0 && o.Offset >= 0 && o.Offset <= o.EndOffset && o.EndOffset <= len(text) {
			e.hasRange = true
			sl, sc := offsetToPos(text, o.Offset)
			el, ec := offsetToPos(text, o.EndOffset)
			e.start, e.end = pos{sl, sc}, pos{el, ec}
			clip := o.EndOffset
			if nl := strings.IndexByte(text[o.Offset:o.EndOffset], '\n'); nl >= 0 {
				clip = o.Offset + nl
			}
			cl, cc := offsetToPos(text, clip)
			e.endLine1 = pos{cl, cc}
		}
		out = append(out, e)
	}
	return out
}

type nopClient struct{ lsp.Client }

func (nopClient) PublishDiagnostics(ctx context.Context, params *lsp.PublishDiagnosticsParams) error {
	return nil
}

// directDefinition is the refinement reference: a fresh ls.Server, called sequentially
// with no transport, holding exactly the model's latest content.
func directDefinition(uri, text string, p pos) (string, error) {
	s := ls.NewServer(zap.NewNop())
	s.SetClient(nopClient{})
	ctx := context.Background()
	if err := s.DidOpen(ctx, &lsp.DidOpenTextDocumentParams{TextDocument: lsp.TextDocumentItem{URI: lsp.DocumentURI(uri), Version: 1, Text: text}}); err != nil {
		return "", err
	}
	locs, err := s.Definition(ctx, &lsp.DefinitionParams{TextDocumentPositionParams: lsp.TextDocumentPositionParams{
		TextDocument: lsp.TextDocumentIdentifier{URI: lsp.DocumentURI(uri)},
		Position:     lsp.Position{Line: p.Line, Character: p.Character}}})
	if err != nil {
		return "", err
	}
	var out []wireLoc
	for _, l := range locs {
		out = append(out, wireLoc{URI: string(l.URI), Range: rng{pos{l.Range.Start.Line, l.Range.Start.Character}, pos{l.Range.End.Line, l.Range.End.Character}}})
	}
	return canonLocs(out), nil
}

type wireLoc struct {
	URI   string `json:"uri"`
	Range rng    `json:"range"`
}

func canonLocs(l []wireLoc) string {
	var parts []string
	for _, x := range l {
		parts = append(parts, fmt.Sprintf("%s@%d:%d-%d:%d", x.URI, x.Range.Start.Line, x.Range.Start.Character, x.Range.End.Line, x.Range.End.Character))
	}
	return strings.Join(parts, " ")
}

// ---------------------------------------------------------------------------------
// wire frames from the server

type wireMsg struct {
	ID     json.RawMessage `json:"id"`
	Method string          `json:"method"`
	Params json.RawMessage `json:"params"`
	Result json.RawMessage `json:"result"`
	Error  *struct {
		Code    int    `json:"code"`
		Message string `json:"message"`
	} `json:"error"`
}

type wireDiag struct {
	Range    rng    `json:"range"`
	Message  string `json:"message"`
	Severity int    `json:"severity"`
}

type wirePublish struct {
	URI         string     `json:"uri"`
	Version     *int       `json:"version"`
	Diagnostics []wireDiag `json:"diagnostics"`
}

// parseFrames splits complete frames off data; rest is the unconsumed tail.
func parseFrames(data []byte) (frames [][]byte, rest []byte, err error) {
	for {
		i := bytes.Index(data, []byte("\r\n\r\n"))
		if i < 0 {
			if len(data) > 256 {
				return frames, data, fmt.Errorf("no header terminator in %q...", data[:60])
			}
			return frames, data, nil
		}
		length := -1
		for _, h := range strings.Split(string(data[:i]), "\r\n") {
			k, v, ok := strings.Cut(h, ":")
			if !ok {
				return frames, data, fmt.Errorf("malformed header line %q", h)
			}
			if strings.EqualFold(strings.TrimSpace(k), "Content-Length") {
				n, e := strconv.Atoi(strings.TrimSpace(v))
				if e != nil || n < 0 {
					return frames, data, fmt.Errorf("bad Content-Length %q", v)
				}
				length = n
			}
		}
		if length < 0 {
			return frames, data, fmt.Errorf("frame without Content-Length: %q", data[:i])
		}
		if len(data) < i+4+length {
			return frames, data, nil
		}
		frames = append(frames, data[i+4:i+4+length])
		data = data[i+4+length:]
	}
}

// ---------------------------------------------------------------------------------
// the engine

type lsEngine struct {
	t *testing.T
}

func (*lsEngine) Name() string { return "lssim" }

type runState struct {
	src *sim.Src
	log *sim.Log
	res *sim.Result
	sc  *script

	in   *simIn
	out  *simOut
	yard *yard

	stream    []byte // concatenated client frames
	frameEnd  []int  // end offset of each frame in stream
	delivered int

	consumed  int // bytes of server output already parsed
	nextDiag  int // index into sc.diags of the next expected publish
	responses map[string]int
	cancelled map[string]bool // ids for which a cancel was delivered (fully) before the response was seen
	clientGone bool
	eofSent    bool
	garbage    bool
	returned   bool // startLS returned
	sched      []string
	expCache   map[string][]expectedDiag
}

func (st *runState) fail(inv, sig, format string, args ...any) {
	st.res.Fail(inv, sig, format, args...)
}

// opsDelivered returns how many script frames have been delivered completely.
func (st *runState) opsDelivered() int {
	n := 0
	for n < len(st.frameEnd) && st.frameEnd[n] <= st.delivered {
		n++
	}
	return n
}

func rawID(r json.RawMessage) (string, bool) {
	if len(r) == 0 || string(r) == "null" {
		return "", false
	}
	var v any
	if json.Unmarshal(r, &v) != nil {
		return "", false
	}
	switch x := v.(type) {
	case float64:
		return "n" + strconv.Itoa(int(x)), true
	case string:
		return "s" + x, true
	}
	return "", false
}

// observe parses what the server has written so far and applies I1-I5.
func (st *runState) observe() {
	st.out.mu.Lock()
	data := st.out.data
	torn := st.out.tornAt
	st.out.mu.Unlock()
	limit := len(data)
	if torn >= 0 {
		limit = torn // frames after the tear are not examined
		st.clientGone = true
	}
	frames, rest, err := parseFrames(data[st.consumed:limit])
	if err != nil {
		st.fail("C23.I1", "framing", "server output is not a sequence of Content-Length frames: %v", err)
		return
	}
	st.consumed = limit - len(rest)
	for _, f := range frames {
		var m wireMsg
		if err := json.Unmarshal(f, &m); err != nil {
			st.fail("C23.I1", "invalid-json", "server frame is not valid JSON: %v: %.120q", err, f)
			return
		}
		switch {
		case m.Method == "textDocument/publishDiagnostics":
			st.checkPublish(m.Params)
		case m.Method != "":
			st.res.Probe("server-sent:" + m.Method)
			st.log.Printf("server -> %s", m.Method)
		default:
			st.checkResponse(&m)
		}
		if st.res.Violation != nil {
			return
		}
	}
}

func safeFilename(uri string) string {
	if strings.HasPrefix(uri, "file://") {
		return lsp.DocumentURI(uri).Filename()
	}
	return uri
}

func (st *runState) checkPublish(params json.RawMessage) {
	var p wirePublish
	if err := json.Unmarshal(params, &p); err != nil {
		st.fail("C23.I1", "publish-params", "publishDiagnostics params do not decode: %v: %.200q", err, params)
		return
	}
	v := 0 // the field is omitempty on the wire: absent means 0
	if p.Version != nil {
		v = *p.Version
	}
	st.log.Printf("server -> publishDiagnostics uri=%s version=%d n=%d", p.URI, v, len(p.Diagnostics))
	// I2: the k-th publish answers the k-th change sent, and that change has been sent.
	sent := st.opsDelivered()
	var e *expDiag
	for st.nextDiag < len(st.sc.diags) {
		c := st.sc.diags[st.nextDiag]
		if c.optional && !(c.uri == p.URI && c.version == v) {
			st.nextDiag++ // an empty change may go unanswered
			continue
		}
		e = c
		break
	}
	if e == nil {
		st.fail("C23.I2", "unsolicited-publish", "publishDiagnostics(uri=%s, version=%d) but every change sent so far has been answered already", p.URI, v)
		return
	}
	st.nextDiag++
	if e.opIndex >= sent {
		st.fail("C23.I2", "publish-before-change", "publishDiagnostics(uri=%s, version=%d) arrived before change #%d was completely sent", p.URI, v, e.opIndex)
		return
	}
	if e.uri != p.URI || e.version != v {
		st.fail("C23.I2", "publish-order", "publishDiagnostics #%d is for (uri=%s, version=%d); the %d-th change sent was (uri=%s, version=%d)", st.nextDiag, p.URI, v, st.nextDiag, e.uri, e.version)
		return
	}
	text := e.text
	// I3: ranges inside the document of that version
	for i, d := range p.Diagnostics {
		if !inDoc(text, d.Range.Start) || !inDoc(text, d.Range.End) || posLess(d.Range.End, d.Range.Start) {
			sig := "range-outside-document"
			if d.Range.Start.Line == 4294967295 {
				sig = "range-outside-document:line-4294967295"
			} else if byteColumnExplains(text, d.Range) {
				sig = "range-outside-document:byte-columns"
			}
			st.fail("C23.I3", sig, "diagnostic #%d %q of (uri=%s, version=%d) has range %v which is not inside the document (%d lines)",
				i, d.Message, p.URI, v, d.Range, strings.Count(text, "\n")+1)
			return
		}
	}
	// I4: positions are UTF-16 code units: compare with the compiler's byte offsets
	// converted by the harness.
	key := e.uri + "\x00" + text
	exp, ok := st.expCache[key]
	if !ok {
		exp = expectedDiagnostics(safeFilename(e.uri), text)
		st.expCache[key] = exp
	}
	if len(exp) != len(p.Diagnostics) {
		st.fail("C23.I4", "diagnostic-count", "(uri=%s, version=%d): %d diagnostics published, compiling that version yields %d errors", p.URI, v, len(p.Diagnostics), len(exp))
		return
	}
	used := make([]bool, len(exp))
	for i, d := range p.Diagnostics {
		found := false
		var sameMsg *expectedDiag
		for j := range exp {
			x := &exp[j]
			if used[j] || x.msg != d.Message && !(x.syntax && strings.Contains(strings.ToLower(d.Message), "syntax error")) {
				continue
			}
			sameMsg = x
			// both ends are UTF-16 positions of the error's byte span; a span that crosses a
			// newline may be shown clipped to its first line
			if !x.hasRange || d.Range.Start == x.start && (d.Range.End == x.end || d.Range.End == x.endLine1) {
				used[j] = true
				found = true
				break
			}
		}
		if !found {
			if sameMsg == nil {
				st.fail("C23.I4", "diagnostic-message", "(uri=%s, version=%d): published diagnostic #%d %q is not among the errors of that version", p.URI, v, i, d.Message)
				return
			}
			sig := "utf16-position"
			if byteColumnExplains(text, d.Range) {
				sig = "utf16-position:byte-columns"
			}
			st.fail("C23.I4", sig, "(uri=%s, version=%d): diagnostic %q published at %v; the error's byte range converts to UTF-16 positions %v..%v",
				p.URI, v, d.Message, d.Range, sameMsg.start, sameMsg.end)
			return
		}
		if lineHasNonASCIIBefore(text, d.Range.Start) {
			st.res.Probe("diagnostic-after-non-ascii-prefix")
		}
		if so, ok1 := posToOffset(text, d.Range.Start.Line, d.Range.Start.Character); ok1 {
			if eo, ok2 := posToOffset(text, d.Range.End.Line, d.Range.End.Character); ok2 && eo >= so && !isASCII(text[so:eo]) {
				st.res.Probe("diagnostic-span-contains-non-ascii")
			}
		}
	}
	if len(p.Diagnostics) > 0 {
		st.res.Probe("publish-with-diagnostics")
	} else {
		st.res.Probe("publish-empty")
	}
}

// byteColumnExplains tells whether rng, read as byte columns, denotes a valid span
// while it is wrong as UTF-16 (classifies the known "byte columns" defect precisely).
func byteColumnExplains(text string, r rng) bool {
	ls, ok := lineStart(text, int(min(r.Start.Line, uint32(len(text)+1))))
	if !ok {
		return false
	}
	le := lineEnd(text, ls)
	if isASCII(text[ls:le]) {
		return false
	}
	return ls+int(r.Start.Character) <= le
}

func lineHasNonASCIIBefore(text string, p pos) bool {
	ls, ok := lineStart(text, int(p.Line))
	if !ok {
		return false
	}
	off, ok := posToOffset(text, p.Line, p.Character)
	if !ok {
		return false
	}
	return !isASCII(text[ls:off])
}

func (st *runState) checkResponse(m *wireMsg) {
	id, ok := rawID(m.ID)
	if !ok {
		st.log.Printf("server -> response without usable id: %s", m.ID)
		st.res.Probe("response-null-id")
		return
	}
	o := st.sc.calls[id]
	st.log.Printf("server -> response id=%s error=%v", id, m.Error != nil)
	if o == nil {
		st.fail("C23.I1", "response-unknown-id", "response for id %s which the client never used", id)
		return
	}
	st.responses[id]++
	if st.responses[id] > 1 {
		st.fail("C23.I1", "duplicate-response", "second response for id %s", id)
		return
	}
	// has the request been sent at all?
	idx := -1
	for i, x := range st.sc.ops {
		if x == o {
			idx = i
		}
	}
	if idx >= st.opsDelivered() {
		st.fail("C23.I1", "response-before-request", "response for id %s before the request was completely sent", id)
		return
	}
	if o.kind != opDefinition {
		return
	}
	st.checkDefinition(o, id, m)
}

func (st *runState) checkDefinition(o *op, id string, m *wireMsg) {
	cancelled := st.cancelled[id]
	if m.Error != nil {
		st.res.Probe("definition-error")
		if m.Error.Code == -32800 {
			st.res.Probe("definition-request-cancelled")
			if !cancelled {
				st.fail("C23.I5", "cancelled-without-cancel", "definition id=%s answered RequestCancelled but the client never cancelled it", id)
			}
			return
		}
		if o.docOpen && o.posValid && !cancelled {
			st.fail("C23.I5", "definition-error-on-valid-request", "definition id=%s at %v in open document %s answered error %d %q; the position is valid in the latest content",
				id, o.pos, o.uri, m.Error.Code, m.Error.Message)
		}
		return
	}
	var locs []wireLoc
	if err := json.Unmarshal(m.Result, &locs); err != nil {
		st.fail("C23.I1", "definition-result", "definition result does not decode as Location[]: %v: %.200q", err, m.Result)
		return
	}
	if !o.docOpen {
		st.fail("C23.I5", "definition-from-closed-document", "definition id=%s answered a result for %s, which is not open in send order (closed or never opened)", id, o.uri)
		return
	}
	text := o.docText
	var name string
	for i, l := range locs {
		if l.URI != o.uri {
			st.fail("C23.I5", "definition-uri", "location #%d has uri %s, request was for %s", i, l.URI, o.uri)
			return
		}
		if !inDoc(text, l.Range.Start) || !inDoc(text, l.Range.End) || posLess(l.Range.End, l.Range.Start) {
			sig := "definition-range-outside-document"
			if byteColumnExplains(text, l.Range) {
				sig += ":byte-columns"
			}
			st.fail("C23.I3", sig, "definition id=%s: location #%d %v is not inside the latest content of %s", id, i, l.Range, o.uri)
			return
		}
		s, ok1 := posToOffset(text, l.Range.Start.Line, l.Range.Start.Character)
		e, ok2 := posToOffset(text, l.Range.End.Line, l.Range.End.Character)
		if !ok1 || !ok2 || e < s {
			sig := "definition-utf16"
			if byteColumnExplains(text, l.Range) {
				sig += ":byte-columns"
			}
			st.fail("C23.I4", sig, "definition id=%s: location #%d %v does not decode as UTF-16 positions in the latest content", id, i, l.Range)
			return
		}
		t := text[s:e]
		if i == 0 {
			name = t
		} else if t != name {
			sig := "definition-names-differ"
			if byteColumnExplains(text, l.Range) || byteColumnExplains(text, locs[0].Range) {
				sig += ":byte-columns"
			}
			st.fail("C23.I5", sig, "definition id=%s: location #0 covers %q but location #%d covers %q (ranges read as UTF-16 in the latest content)", id, name, i, t)
			return
		}
		if lineHasNonASCIIBefore(text, l.Range.Start) {
			st.res.Probe("definition-location-after-non-ascii-prefix")
		}
	}
	if len(locs) > 0 {
		st.res.Probe("definition-nonempty")
		if _, ok := goldenSymbols[text]; ok {
			st.res.Probe("definition-on-golden-document")
		}
		okName := isSymbolName(name)
		if !okName {
			sig := "definition-not-identifier"
			if byteColumnExplains(text, locs[0].Range) {
				sig += ":byte-columns"
			}
			st.fail("C23.I5", sig, "definition id=%s: locations cover %q, which is not an identifier", id, name)
			return
		}
		if o.posValid {
			// the cursor lies within an occurrence of that name
			found := false
			for s := max(0, o.posOff-len(name)); s <= o.posOff && s+len(name) <= len(text); s++ {
				if text[s:s+len(name)] == name {
					found = true
					break
				}
			}
			if !found {
				sig := "definition-other-name"
				if byteColumnExplains(text, locs[0].Range) {
					sig += ":byte-columns"
				}
				st.fail("C23.I5", sig, "definition id=%s at %v: locations cover %q but the cursor is not on an occurrence of %q in the latest content of %s",
					id, o.pos, name, name, o.uri)
				return
			}
		}
	} else {
		st.res.Probe("definition-empty")
		if names, ok := goldenSymbols[text]; ok && o.posValid && !cancelled {
			for _, nm := range names {
				if nm == o.onIdent {
					st.fail("C23.I5", "definition-empty-on-declared-symbol", "definition id=%s at %v on the symbol %q of a well-formed document answered no location at all; %q is declared and referenced in that document", id, o.pos, nm, nm)
					return
				}
			}
		}
	}
	// refinement: equal to a fresh server holding exactly the latest content
	if !cancelled {
		want, err := directDefinition(o.uri, text, o.pos)
		if err != nil {
			if o.posValid {
				st.fail("C23.I5", "definition-result-vs-direct-error", "definition id=%s answered %q over the connection; a direct call on the latest content fails: %v", id, canonLocs(locs), err)
			}
			return
		}
		if got := canonLocs(locs); got != want {
			st.fail("C23.I5", "definition-stale-or-different", "definition id=%s at %v answered [%s] over the connection; a fresh server holding the latest content of %s answers [%s]", id, o.pos, got, o.uri, want)
			return
		}
		st.res.Probe("definition-refinement-checked")
	}
}

// step actions
const (
	actDeliver = iota
	actRelease
	actFault
)

func (e *lsEngine) Run(src *sim.Src, log *sim.Log, res *sim.Result) {
	sc := genScript(src)
	st := &runState{src: src, log: log, res: res, sc: sc, responses: map[string]int{}, cancelled: map[string]bool{}, expCache: map[string][]expectedDiag{}}
	for _, o := range sc.ops {
		st.stream = append(st.stream, o.frame...)
		st.frameEnd = append(st.frameEnd, len(st.stream))
	}
	var names []string
	for _, o := range sc.ops {
		names = append(names, o.describe())
	}
	log.Printf("script: %s", strings.Join(names, " | "))
	res.Probe(fmt.Sprintf("negotiated-sync-kind:%d", negotiatedSync))
	for _, o := range sc.ops {
		if o.incr {
			res.Probe("client-sent-ranged-edit")
		}
	}

	// per-run knobs (swarm)
	faultsOn := src.Chance(45, 100)
	stall := src.Pick(6, 3, 1) // 0: eager releases, 1: balanced, 2: stalled client
	chunkMode := src.Draw(5)   // 0 whole frames, 1 random splits, 2 byte dribble near boundaries, 3 coalesce, 4 mixed

	deadlock := ""
	func() {
		defer func() {
			if r := recover(); r != nil {
				deadlock = fmt.Sprint(r)
			}
		}()
		synctest.Test(e.t, func(t *testing.T) { st.simulate(faultsOn, stall, chunkMode) })
	}()
	jsonrpc2.VerifBeforeWrite = nil
	jsonrpc2.VerifWrapCtx = nil
	if logBuf.Len() > 0 {
		if strings.Contains(logBuf.String(), "WARNING") {
			res.Probe("compiler-warning-logged")
		}
		logBuf.Reset()
	}
	if stray := strayBytes(); stray != "" && res.Violation == nil {
		res.Fail("C23.I1", "stray-bytes-on-stdout", "the server process wrote %q to its standard output outside the protocol connection: in `textmapper ls` stdout IS the connection, so these bytes land between (or inside) frames", stray)
	}
	if deadlock != "" && res.Violation == nil {
		res.Fail("C23.I6", "deadlock", "server goroutines blocked forever: %s", deadlock)
	}
	res.Sched = strings.Join(st.sched, "")
	res.NonTriv = len(sc.diags) > 0 && st.nextDiag > 0
	dec := obj{"script": names, "schedule": res.Sched, "faults": res.Faults, "documents": len(sc.diags)}
	var texts []string
	for _, d := range sc.diags {
		t := d.text
		if len(t) > 1500 {
			t = t[:1500] + "…"
		}
		texts = append(texts, fmt.Sprintf("op#%d %s v%d (%d bytes): %q", d.opIndex, d.uri, d.version, len(d.text), t))
	}
	dec["document_texts"] = texts
	for _, d := range sc.diags {
		if d.text != "" {
			t := d.text
			if len(t) > 160 {
				t = t[:160]
			}
			dec["first_document_head"] = t
			break
		}
	}
	res.Decoded = dec
}

func (st *runState) simulate(faultsOn bool, stall, chunkMode int) {
	src, log, res := st.src, st.log, st.res
	st.in = &simIn{ch: make(chan []byte, 1), closed: make(chan struct{})}
	st.out = &simOut{tornAt: -1}
	st.yard = &yard{seq: map[string]int{}}
	zzStdin, zzStdout = st.in, st.out
	jsonrpc2.VerifBeforeWrite = st.yard.hook
	jsonrpc2.VerifWrapCtx = st.yard.wrapCtx

	done := make(chan struct{})
	go func() {
		startLS(context.Background(), nil)
		close(done)
	}()
	synctest.Wait()

	isDone := func() bool {
		select {
		case <-done:
			return true
		default:
			return false
		}
	}

	maxSteps := 40 + 12*len(st.sc.ops) + len(st.stream)/8
	steps := 0
	for ; steps < maxSteps && res.Violation == nil; steps++ {
		if isDone() {
			st.returned = true
			break
		}
		parkedNow := st.yard.snapshot()
		remaining := len(st.stream) - st.delivered
		if remaining == 0 && len(parkedNow) == 0 {
			break
		}
		// choose an action
		wDeliver, wRelease, wFault := 0, 0, 0
		if remaining > 0 && !st.eofSent {
			wDeliver = 10
		}
		if len(parkedNow) > 0 {
			wRelease = []int{14, 7, 1}[stall]
			if remaining == 0 || st.eofSent {
				wRelease = 10
			}
		}
		if faultsOn && !st.eofSent {
			wFault = 1
		}
		// the simulated clock only moves when the simulator says so (synctest): a jump
		// lets timers of the server (debouncing, timeouts) fire between two protocol events
		wClock := 0
		if steps > 0 {
			wClock = 1
		}
		switch src.Pick(wDeliver, wRelease, wFault, wClock) {
		case 3:
			d := []time.Duration{time.Millisecond, 50 * time.Millisecond, 300 * time.Millisecond, 2 * time.Second, time.Minute}[src.Draw(5)]
			log.Printf("clock +%v", d)
			st.sched = append(st.sched, "t")
			res.Fault("clock-jump")
			time.Sleep(d)
		case actDeliver:
			st.deliver(chunkMode, parkedNow)
		case actRelease:
			p := parkedNow[src.Draw(len(parkedNow))]
			// was a response released after a later handler's notification parked/was sent?
			if strings.HasPrefix(p.key, "resp:") && len(parkedNow) > 1 {
				res.Probe("release-out-of-arrival-order")
			}
			if len(parkedNow) >= 2 {
				res.Probe(">=2-writers-parked")
			}
			if len(parkedNow) >= 3 {
				res.Probe(">=3-writers-parked")
			}
			if strings.HasPrefix(p.key, "poll:") {
				res.Probe("handler-parked-at-parser-poll")
			}
			log.Printf("release %s (parked: %d)", p.key, len(parkedNow))
			st.sched = append(st.sched, "R"+p.key[:1])
			st.yard.release(p)
		case actFault:
			st.fault(parkedNow)
		}
		synctest.Wait()
		st.observe()
		res.States = append(res.States, fmt.Sprintf("d%d/p%d/q%d/g%v", st.opsDelivered()-st.nextDiag, len(st.yard.snapshot()), st.nextDiag, st.clientGone))
	}
	res.Steps = steps
	if res.Violation != nil {
		st.drain(done)
		return
	}

	// quiescent tail: everything has been delivered; release what is parked until
	// nothing is, then check obligations (I7), then EOF and termination.
	// (each cancellation poll of a parse of a large document is one release: give those room)
	budget := 2*(len(st.sc.ops)+1) + 8 + 1000
	for i := 0; i < budget && res.Violation == nil; i++ {
		parkedNow := st.yard.snapshot()
		if len(parkedNow) == 0 {
			break
		}
		p := parkedNow[src.Draw(len(parkedNow))]
		log.Printf("tail release %s", p.key)
		st.yard.release(p)
		synctest.Wait()
		st.observe()
		res.Steps++
	}
	if res.Violation != nil {
		st.drain(done)
		return
	}
	// let every pending timer of the server fire, then drain what that produced
	for i := 0; i < 3 && res.Violation == nil; i++ {
		time.Sleep(time.Minute)
		synctest.Wait()
		for _, p := range st.yard.snapshot() {
			log.Printf("tail release %s (after clock jump)", p.key)
			st.yard.release(p)
			synctest.Wait()
		}
		st.observe()
	}
	if res.Violation != nil {
		st.drain(done)
		return
	}
	if n := len(st.yard.snapshot()); n > 0 {
		st.fail("C23.I7", "writers-never-drain", "%d writers still parked after %d releases with no input pending", n, budget)
		st.drain(done)
		return
	}
	if !st.eofSent && !st.clientGone && !st.garbage && !isDone() && st.delivered == len(st.stream) {
		// every change has its diagnostics, every (uncancelled) call its response
		for st.nextDiag < len(st.sc.diags) && st.sc.diags[st.nextDiag].optional {
			st.nextDiag++
		}
		if st.nextDiag < len(st.sc.diags) {
			d := st.sc.diags[st.nextDiag]
			st.fail("C23.I7", "missing-diagnostics", "change #%d (uri=%s, version=%d) never got its publishDiagnostics although the connection is idle", d.opIndex, d.uri, d.version)
		}
		for _, id := range sortedIDs(st.sc.calls) {
			o := st.sc.calls[id]
			if st.responses[id] == 0 && !st.cancelled[id] && res.Violation == nil {
				st.fail("C23.I7", "missing-response", "call id=%s (%s) never got a response although the connection is idle", id, opNames[o.kind])
			}
		}
		res.Probe("idle-obligations-checked")
	}
	// EOF: the server must return
	if !st.eofSent {
		close(st.in.ch)
		st.eofSent = true
		log.Printf("EOF (end of script)")
		synctest.Wait()
	}
	for i := 0; i < 3 && !isDone(); i++ {
		for _, p := range st.yard.snapshot() {
			st.yard.release(p)
		}
		synctest.Wait()
	}
	if !isDone() && res.Violation == nil {
		st.fail("C23.I7", "no-return-after-eof", "startLS did not return after EOF on stdin and release of all writers")
	}
	st.returned = isDone()
	st.observe()
	st.drain(done)
}

func sortedIDs(m map[string]*op) []string {
	var ks []string
	for k := range m {
		ks = append(ks, k)
	}
	sort.Strings(ks)
	return ks
}

// drain lets every goroutine of the bubble finish so that the bubble can end.
func (st *runState) drain(done chan struct{}) {
	if !st.eofSent {
		close(st.in.ch)
		st.eofSent = true
	}
	st.in.Close()
	st.yard.mu.Lock()
	st.yard.free = true
	st.yard.mu.Unlock()
	for i := 0; i < 1000; i++ {
		ps := st.yard.snapshot()
		if len(ps) == 0 {
			break
		}
		for _, p := range ps {
			st.yard.release(p)
		}
		synctest.Wait()
	}
	synctest.Wait()
}

// deliver hands the next chunk of the client byte stream to the server's reader.
func (st *runState) deliver(chunkMode int, parkedNow []*parked) {
	src := st.src
	cur := st.opsDelivered() // index of the frame the next byte belongs to
	frameEnd := st.frameEnd[cur]
	frameStart := 0
	if cur > 0 {
		frameStart = st.frameEnd[cur-1]
	}
	mode := chunkMode
	if mode == 4 {
		mode = src.Draw(4)
	}
	end := frameEnd
	kind := "W"
	switch mode {
	case 1: // random split
		if src.Chance(1, 2) {
			end = st.delivered + 1 + src.Draw(frameEnd-st.delivered)
			kind = "S"
		}
	case 2: // dribble around structure: header, separator, inside multi-byte runes
		switch src.Draw(4) {
		case 0:
			end = st.delivered + 1
			kind = "1"
		case 1:
			hdr := frameStart + bytes.Index(st.stream[frameStart:frameEnd], []byte("\r\n\r\n"))
			if st.delivered <= hdr {
				end = hdr + 1 + src.Draw(4) // inside \r\n\r\n
				kind = "H"
			}
		case 2:
			// stop inside a multi-byte UTF-8 sequence if one is ahead
			for i := st.delivered + 1; i < frameEnd; i++ {
				if st.stream[i]&0xC0 == 0x80 {
					end = i
					kind = "U"
					break
				}
			}
		}
	case 3: // coalesce several frames
		k := 1 + src.Draw(4)
		for cur+k > len(st.frameEnd) {
			k--
		}
		end = st.frameEnd[cur+k-1]
		if k > 1 {
			kind = "C"
		}
	}
	if end <= st.delivered {
		end = st.delivered + 1
	}
	if end > len(st.stream) {
		end = len(st.stream)
	}
	// Determinism discipline (DESIGN §3.3): the reader goroutine cancels request
	// contexts synchronously. A chunk must not complete both a call and a cancel aimed
	// at it unless the handler chain is blocked (then the call is merely queued).
	chainBlocked := false
	for _, p := range parkedNow {
		if strings.HasPrefix(p.key, "notif:") || strings.HasPrefix(p.key, "poll:") {
			chainBlocked = true // that handler has not replied yet: later requests are queued
		}
	}
	if !chainBlocked {
		completed := map[string]bool{}
		for i := cur; i < len(st.frameEnd) && st.frameEnd[i] <= end; i++ {
			o := st.sc.ops[i]
			if o.kind == opCancel && completed[idKey(o.target)] {
				end = st.frameEnd[i] - 1 // hold back the last byte of the cancel
				st.res.Probe("cancel-held-back-one-step")
				break
			}
			if o.id != nil {
				completed[idKey(o.id)] = true
			}
		}
		if end <= st.delivered {
			end = st.delivered + 1
		}
	}
	chunk := append([]byte{}, st.stream[st.delivered:end]...)
	before := st.opsDelivered()
	st.delivered = end
	after := st.opsDelivered()
	for i := before; i < after; i++ {
		o := st.sc.ops[i]
		switch o.kind {
		case opCancel:
			id := idKey(o.target)
			if c := st.sc.calls[id]; c != nil {
				if st.responses[id] == 0 {
					st.cancelled[id] = true
					midBody := false
					for _, p := range parkedNow {
						if strings.HasPrefix(p.key, "poll:") && strings.Contains(p.key, fmt.Sprint(o.target)) {
							midBody = true
						}
					}
					if midBody {
						st.res.Probe("cancel-hit-call-parked-at-a-parser-poll")
					}
					if chainBlocked {
						st.res.Probe("cancel-hit-queued-call")
					} else {
						st.res.Probe("cancel-hit-finished-call")
					}
				} else {
					st.res.Probe("cancel-after-response")
				}
			} else {
				st.res.Probe("cancel-unknown-id")
			}
		case opGarbage:
			st.garbage = true
		}
	}
	switch kind {
	case "H":
		st.res.Probe("split-inside-header-separator")
	case "U":
		st.res.Probe("split-inside-utf8-sequence")
	case "C":
		st.res.Probe("frames-coalesced")
	case "1":
		st.res.Probe("single-byte-delivery")
	}
	if after-before >= 3 {
		st.res.Probe(">=3-frames-in-one-delivery")
	}
	st.log.Printf("deliver %d bytes (%s), frames complete: %d -> %d", len(chunk), kind, before, after)
	st.sched = append(st.sched, kind)
	select {
	case st.in.ch <- chunk:
	default:
		// the reader stopped consuming (connection failed); nothing more can be delivered
		st.res.Probe("delivery-to-dead-reader")
		st.delivered = len(st.stream)
	}
}

func (st *runState) fault(parkedNow []*parked) {
	src, res := st.src, st.res
	switch src.Pick(4, 3, 3, 1) {
	case 0: // EOF on stdin at the current byte (between frames, mid-header or mid-body)
		cur := st.opsDelivered()
		start := 0
		if cur > 0 {
			start = st.frameEnd[cur-1]
		}
		where := "between-frames"
		if st.delivered > start {
			where = "mid-frame"
		}
		res.Fault("eof:" + where)
		st.log.Printf("FAULT eof %s at byte %d", where, st.delivered)
		st.sched = append(st.sched, "E")
		close(st.in.ch)
		st.eofSent = true
	case 1: // the client goes away: the next frame's header write fails
		st.out.mu.Lock()
		if !st.out.dead && st.out.failFrom == 0 {
			st.out.failFrom = 1
			res.Fault("epipe:header-write")
		}
		st.out.mu.Unlock()
		st.log.Printf("FAULT arm EPIPE on next header write")
		st.sched = append(st.sched, "X")
	case 2: // torn frame: header goes out, body write fails
		st.out.mu.Lock()
		if !st.out.dead && st.out.failFrom == 0 {
			st.out.failFrom = 2
			res.Fault("epipe:body-write(torn-frame)")
		}
		st.out.mu.Unlock()
		st.log.Printf("FAULT arm EPIPE on next body write")
		st.sched = append(st.sched, "T")
	case 3: // the client sends a malformed frame; the rest of the script is dropped
		if st.garbage {
			return
		}
		cur := st.opsDelivered()
		start := 0
		if cur > 0 {
			start = st.frameEnd[cur-1]
		}
		if st.delivered != start {
			return // only between frames
		}
		g := &op{kind: opGarbage}
		g.build()
		st.stream = append(st.stream[:st.delivered:st.delivered], g.frame...)
		st.sc.ops = append(st.sc.ops[:cur:cur], g)
		st.frameEnd = append(st.frameEnd[:cur:cur], len(st.stream))
		// expectations for ops that will never be sent are dropped
		var keep []*expDiag
		for _, d := range st.sc.diags {
			if d.opIndex < cur {
				keep = append(keep, d)
			}
		}
		st.sc.diags = keep
		for id, o := range st.sc.calls {
			sent := false
			for _, x := range st.sc.ops[:cur] {
				if x == o {
					sent = true
				}
			}
			if !sent {
				delete(st.sc.calls, id)
			}
		}
		res.Fault("garbage-frame")
		st.log.Printf("FAULT client will send a malformed frame next")
		st.sched = append(st.sched, "G")
	}
}

// ---------------------------------------------------------------------------------

// strayStdout is the file standing in for the process's standard output while the server
// runs: the real `textmapper ls` speaks the protocol on stdout, so anything else the code
// writes there (a stray fmt.Printf) lands in the middle of the frame stream.
var strayStdout *os.File

// logBuf receives what the code under test writes through the standard logger.
var logBuf lockedBuffer

type lockedBuffer struct {
	mu sync.Mutex
	b  bytes.Buffer
}

func (l *lockedBuffer) Write(p []byte) (int, error) {
	l.mu.Lock()
	defer l.mu.Unlock()
	if l.b.Len() < 1<<16 {
		l.b.Write(p)
	}
	return len(p), nil
}
func (l *lockedBuffer) Len() int       { l.mu.Lock(); defer l.mu.Unlock(); return l.b.Len() }
func (l *lockedBuffer) String() string { l.mu.Lock(); defer l.mu.Unlock(); return l.b.String() }
func (l *lockedBuffer) Reset()         { l.mu.Lock(); defer l.mu.Unlock(); l.b.Reset() }

func strayBytes() string {
	if strayStdout == nil {
		return ""
	}
	st, err := strayStdout.Stat()
	if err != nil || st.Size() == 0 {
		return ""
	}
	b := make([]byte, min(st.Size(), 300))
	strayStdout.ReadAt(b, 0)
	strayStdout.Truncate(0)
	strayStdout.Seek(0, 0)
	return string(b)
}

func TestZZLSSim(t *testing.T) {
	loadBaseGrammars()
	sim.Out = os.Stdout
	log.SetOutput(&logBuf)
	if f, err := os.CreateTemp("", "zzlssim-stdout."); err == nil {
		os.Remove(f.Name())
		strayStdout = f
		os.Stdout = f
	}
	if devnull, err := os.OpenFile(os.DevNull, os.O_WRONLY, 0); err == nil {
		os.Stderr = devnull // zap's development logger writes there
	}
	negotiatedSync = probeSyncKind(t)
	logBuf.Reset()
	sim.Main(&lsEngine{t: t}, flag.Args())
}
