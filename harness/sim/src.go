// Package sim is the part of the deterministic simulator shared by all engines:
// the choice tape (the single source of every decision), the hashed event log,
// and the worker-side protocol spoken with the driver in /verif/driver.
//
// It is mapped into the module under test with `go build -overlay` as
// github.com/inspirer/textmapper/zzverif/sim; nothing is written to /repo.
package sim

// Src is the only source of decisions in a simulated run. In search mode it is a
// splitmix64 stream derived from (seed, run); in replay mode it plays back a tape and
// yields 0 once the tape is exhausted. Either way the reduced values handed out are
// recorded, so Rec is always a tape that replays the run exactly.
type Src struct {
	state  uint64
	replay bool
	tape   []uint64
	pos    int
	Rec    []uint64
}

func mix(z uint64) uint64 {
	z += 0x9e3779b97f4a7c15
	z = (z ^ (z >> 30)) * 0xbf58476d1ce4e5b9
	z = (z ^ (z >> 27)) * 0x94d049bb133111eb
	return z ^ (z >> 31)
}

// NewSearch returns a source for run number run of the batch seeded with seed.
func NewSearch(seed, run uint64) *Src {
	return &Src{state: mix(mix(seed)^mix(run*0x2545f4914f6cdd1d+1)) | 1}
}

// NewReplay returns a source that replays tape.
func NewReplay(tape []uint64) *Src {
	return &Src{replay: true, tape: tape}
}

func (s *Src) next() uint64 {
	s.state += 0x9e3779b97f4a7c15
	z := s.state
	z = (z ^ (z >> 30)) * 0xbf58476d1ce4e5b9
	z = (z ^ (z >> 27)) * 0x94d049bb133111eb
	return z ^ (z >> 31)
}

// Draw returns a value in [0, n). n < 1 is treated as 1 (and still consumes a draw so
// tapes stay aligned when a bound collapses during shrinking).
func (s *Src) Draw(n int) int {
	if n < 1 {
		n = 1
	}
	var v uint64
	if s.replay {
		if s.pos < len(s.tape) {
			v = s.tape[s.pos] % uint64(n)
		}
		s.pos++
	} else {
		v = s.next() % uint64(n)
	}
	s.Rec = append(s.Rec, v)
	return int(v)
}

// Range returns a value in [lo, hi].
func (s *Src) Range(lo, hi int) int {
	if hi < lo {
		hi = lo
	}
	return lo + s.Draw(hi-lo+1)
}

// Chance is true with probability num/den. The "unusual" outcome is the non-zero
// draw so that a zeroed tape takes the plain path.
func (s *Src) Chance(num, den int) bool {
	return s.Draw(den) >= den-num
}

// Pick draws an index weighted by w; zero weights are never picked unless all are zero.
func (s *Src) Pick(w ...int) int {
	total := 0
	for _, x := range w {
		total += x
	}
	if total == 0 {
		return s.Draw(len(w))
	}
	v := s.Draw(total)
	for i, x := range w {
		if v < x {
			return i
		}
		v -= x
	}
	return len(w) - 1
}

// Used reports how many draws were made.
func (s *Src) Used() int { return len(s.Rec) }

// Fork derives an independent, deterministic stream from this one using a single
// draw, so that a bulk consumer (e.g. a document generator) costs one tape cell in
// search mode. In replay mode the fork replays nothing itself: it is reseeded from
// the recorded cell, hence still a pure function of the tape.
func (s *Src) Fork() *Src {
	v := s.Draw(1 << 30)
	return &Src{state: mix(uint64(v)+0x51ed270b) | 1}
}

// Raw returns the next raw value of a search-mode stream (used by the driver to
// rebuild the tape of a run whose worker died before it could report one).
func (s *Src) Raw() uint64 { return s.next() }
