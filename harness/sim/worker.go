package sim

import (
	"bufio"
	"bytes"
	"crypto/sha256"
	"encoding/hex"
	"encoding/json"
	"flag"
	"fmt"
	"hash"
	"hash/fnv"
	"os"
	"os/exec"
	"runtime"
	"sort"
	"strings"
	"time"
)

// Log is the event log of one run. Only its hash is kept unless Keep is set.
type Log struct {
	h     hash.Hash
	Keep  bool
	Lines []string
	N     int
}

func NewLog(keep bool) *Log { return &Log{h: sha256.New(), Keep: keep} }

func (l *Log) Printf(format string, args ...any) {
	s := fmt.Sprintf(format, args...)
	l.h.Write([]byte(s))
	l.h.Write([]byte{'\n'})
	l.N++
	if l.Keep {
		l.Lines = append(l.Lines, s)
	}
}

func (l *Log) Sum() string { return hex.EncodeToString(l.h.Sum(nil)[:16]) }

// Violation describes a failed oracle.
type Violation struct {
	Invariant string `json:"invariant"`           // stable id of the oracle, e.g. "C29.safety"
	Signature string `json:"signature,omitempty"` // narrower class used to match known findings
	Detail    string `json:"detail"`
}

// Result is what one simulated run reports.
type Result struct {
	Run       uint64         `json:"run"`
	Violation *Violation     `json:"violation,omitempty"`
	LogHash   string         `json:"log_sha256"`
	Tape      []uint64       `json:"tape,omitempty"`
	Steps     int            `json:"steps"`            // simulated steps (engine-specific unit)
	Faults    map[string]int `json:"faults,omitempty"` // fault kinds that actually fired
	Probes    map[string]int `json:"probes,omitempty"` // reach probes hit
	Sched     string         `json:"sched,omitempty"`  // fingerprint source of the interleaving
	States    []string       `json:"states,omitempty"` // abstract states visited
	NonTriv   bool           `json:"nontrivial"`       // engine's non-triviality rule held
	Decoded   any            `json:"decoded,omitempty"`
	LogLines  []string       `json:"log,omitempty"`
	Skipped   string         `json:"skipped,omitempty"` // run could not be executed (counted, not a verdict)
}

func (r *Result) Fault(kind string) {
	if r.Faults == nil {
		r.Faults = map[string]int{}
	}
	r.Faults[kind]++
}

func (r *Result) Probe(name string) {
	if r.Probes == nil {
		r.Probes = map[string]int{}
	}
	r.Probes[name]++
}

func (r *Result) ProbeN(name string, n int) {
	if n == 0 {
		return
	}
	if r.Probes == nil {
		r.Probes = map[string]int{}
	}
	r.Probes[name] += n
}

func (r *Result) Fail(inv, sig, format string, args ...any) {
	if r.Violation != nil {
		return // first violation wins
	}
	r.Violation = &Violation{Invariant: inv, Signature: sig, Detail: fmt.Sprintf(format, args...)}
}

// Engine runs one simulation from a choice source. It must be a pure function of
// (src, code under test, Config).
type Engine interface {
	Name() string
	Run(src *Src, log *Log, res *Result)
}

// Stat is the aggregate a worker streams to the driver.
type Stat struct {
	Runs     int            `json:"runs"`
	NonTriv  int            `json:"nontrivial"`
	Skipped  map[string]int `json:"skipped,omitempty"`
	Steps    int64          `json:"steps"`
	Faults   map[string]int `json:"faults"`
	Probes   map[string]int `json:"probes"`
	Scheds   []uint64       `json:"scheds"` // new distinct interleaving fingerprints
	States   []uint64       `json:"states"` // new distinct abstract states
	FaultRun int            `json:"fault_runs"`
	Samples  []any          `json:"samples,omitempty"`
}

func fnv64(s string) uint64 {
	h := fnv.New64a()
	h.Write([]byte(s))
	return h.Sum64()
}

type agg struct {
	stat   Stat
	scheds map[uint64]bool
	states map[uint64]bool
}

func newAgg() *agg {
	return &agg{stat: Stat{Faults: map[string]int{}, Probes: map[string]int{}, Skipped: map[string]int{}},
		scheds: map[uint64]bool{}, states: map[uint64]bool{}}
}

func (a *agg) add(r *Result, wantSample bool) {
	a.stat.Runs++
	if r.Skipped != "" {
		a.stat.Skipped[r.Skipped]++
		return
	}
	if r.NonTriv {
		a.stat.NonTriv++
	}
	a.stat.Steps += int64(r.Steps)
	for k, v := range r.Faults {
		a.stat.Faults[k] += v
	}
	if len(r.Faults) > 0 {
		a.stat.FaultRun++
	}
	for k, v := range r.Probes {
		if strings.HasPrefix(k, "max-") { // high-water marks, not counters
			if v > a.stat.Probes[k] {
				a.stat.Probes[k] = v
			}
			continue
		}
		a.stat.Probes[k] += v
	}
	if r.Sched != "" && r.NonTriv {
		f := fnv64(r.Sched)
		if !a.scheds[f] {
			a.scheds[f] = true
			a.stat.Scheds = append(a.stat.Scheds, f)
		}
	}
	for _, s := range r.States {
		f := fnv64(s)
		if !a.states[f] {
			a.states[f] = true
			a.stat.States = append(a.stat.States, f)
		}
	}
	if wantSample && r.Decoded != nil {
		a.stat.Samples = append(a.stat.Samples, r.Decoded)
	}
}

func (a *agg) flush(w *bufio.Writer) {
	sort.Slice(a.stat.Scheds, func(i, j int) bool { return a.stat.Scheds[i] < a.stat.Scheds[j] })
	sort.Slice(a.stat.States, func(i, j int) bool { return a.stat.States[i] < a.stat.States[j] })
	b, _ := json.Marshal(&a.stat)
	fmt.Fprintf(w, "STAT %s\n", b)
	w.Flush()
	a.stat = Stat{Faults: map[string]int{}, Probes: map[string]int{}, Skipped: map[string]int{}}
}

// Request is one line of the serve protocol.
type Request struct {
	ID   int      `json:"id"`
	Tape []uint64 `json:"tape"`
	Log  bool     `json:"log"`
	// search-mode run, for -isolate children
	Search bool   `json:"search,omitempty"`
	Seed   uint64 `json:"seed,omitempty"`
	Run    uint64 `json:"run,omitempty"`
}

// runIsolated executes one request in a fresh child process (same binary, -child) so
// that nothing a run leaves behind in package-level state can reach the next run: the
// history a run sees is exactly the one its tape describes.
func runIsolated(req *Request) (*Result, error) {
	b, _ := json.Marshal(req)
	cmd := exec.Command(os.Args[0], append(childArgs(), "-child", "-procs", fmt.Sprint(runtime.GOMAXPROCS(0)))...)
	cmd.Stdin = bytes.NewReader(append(b, '\n'))
	cmd.Stderr = os.Stderr
	out, err := cmd.Output()
	if err != nil {
		return nil, fmt.Errorf("child process: %v", err)
	}
	for _, line := range strings.Split(string(out), "\n") {
		if strings.HasPrefix(line, "END ") {
			rest := line[4:]
			sp := strings.IndexByte(rest, ' ')
			var res Result
			if err := json.Unmarshal([]byte(rest[sp+1:]), &res); err != nil {
				return nil, err
			}
			return &res, nil
		}
	}
	return nil, fmt.Errorf("child process printed no result")
}

// childArgs keeps the arguments that precede the worker's own flags (e.g. the
// -test.* flags and "--" of a test binary).
func childArgs() []string {
	for i, a := range os.Args[1:] {
		if a == "--" {
			return append([]string{}, os.Args[1:i+2]...)
		}
	}
	return nil
}

func execute(e Engine, req *Request) *Result {
	var src *Src
	if req.Search {
		src = NewSearch(req.Seed, req.Run)
	} else {
		src = NewReplay(req.Tape)
	}
	lg := NewLog(req.Log)
	res := &Result{Run: req.Run}
	if !req.Search {
		res.Run = uint64(req.ID)
	}
	e.Run(src, lg, res)
	res.LogHash = lg.Sum()
	res.Tape = src.Rec
	if req.Log {
		res.LogLines = lg.Lines
	}
	return res
}

// Out is where the worker protocol is written. A harness that wants to observe what the
// code under test writes to the process's standard output redirects os.Stdout and sets
// Out to the original stream first.
var Out = os.Stdout

// Main is the worker entry point. Modes:
//
//	-seed S -first i -stride n [-count k] [-deadline unix]   search
//	-serve                                                    replay tapes read from stdin
//
// Output protocol on stdout: "BEGIN <run>", then either "FAIL <run> <json>" or nothing,
// "STAT <json>" periodically; in serve mode "END <id> <json>" per request.
// The real clock is read only between runs to honour the deadline; it never
// influences the content of a run.
func Main(e Engine, args []string) {
	fs := flag.NewFlagSet(e.Name(), flag.ExitOnError)
	seed := fs.Uint64("seed", 1, "batch seed")
	first := fs.Uint64("first", 0, "first run index")
	stride := fs.Uint64("stride", 1, "run index stride")
	count := fs.Uint64("count", 0, "number of runs (0 = until deadline)")
	deadline := fs.Int64("deadline", 0, "unix seconds after which no new run starts")
	serve := fs.Bool("serve", false, "serve replay requests from stdin")
	procs := fs.Int("procs", 0, "GOMAXPROCS for this worker")
	samples := fs.Int("samples", 0, "decoded samples to emit")
	isolate := fs.Bool("isolate", false, "run every simulation in a fresh child process")
	child := fs.Bool("child", false, "internal: execute one request read from stdin")
	fs.Parse(args)
	if *procs > 0 {
		runtime.GOMAXPROCS(*procs)
	}
	out := bufio.NewWriterSize(Out, 1<<16)
	defer out.Flush()

	if *child {
		in := bufio.NewReaderSize(os.Stdin, 1<<20)
		line, _ := in.ReadString('\n')
		var req Request
		if err := json.Unmarshal([]byte(line), &req); err != nil {
			fmt.Fprintf(os.Stderr, "child: bad request: %v\n", err)
			os.Exit(2)
		}
		res := execute(e, &req)
		b, _ := json.Marshal(res)
		fmt.Fprintf(out, "END %d %s\n", req.ID, b)
		return
	}
	if *serve {
		in := bufio.NewReaderSize(os.Stdin, 1<<20)
		for {
			line, err := in.ReadString('\n')
			if strings.TrimSpace(line) != "" {
				var req Request
				if jerr := json.Unmarshal([]byte(line), &req); jerr != nil {
					fmt.Fprintf(out, "ERROR bad request: %v\n", jerr)
					out.Flush()
					os.Exit(2)
				}
				fmt.Fprintf(out, "BEGIN %d\n", req.ID)
				out.Flush()
				var res *Result
				if *isolate {
					r, ierr := runIsolated(&req)
					if ierr != nil {
						out.Flush()
						fmt.Fprintln(os.Stderr, ierr)
						os.Exit(3) // die like the child did: the driver attributes it to this request
					}
					res = r
				} else {
					res = execute(e, &req)
				}
				b, _ := json.Marshal(res)
				fmt.Fprintf(out, "END %d %s\n", req.ID, b)
				out.Flush()
			}
			if err != nil {
				return
			}
		}
	}

	a := newAgg()
	var done uint64
	for run := *first; ; run += *stride {
		if *count > 0 && done >= *count {
			break
		}
		if *deadline > 0 && time.Now().Unix() >= *deadline {
			break
		}
		fmt.Fprintf(out, "BEGIN %d\n", run)
		out.Flush()
		var res *Result
		if *isolate {
			r, ierr := runIsolated(&Request{Search: true, Seed: *seed, Run: run})
			if ierr != nil {
				out.Flush()
				fmt.Fprintln(os.Stderr, ierr)
				os.Exit(3)
			}
			res = r
		} else {
			res = execute(e, &Request{Search: true, Seed: *seed, Run: run})
		}
		if res.Violation != nil {
			res.Decoded = nil
			b, _ := json.Marshal(res)
			fmt.Fprintf(out, "FAIL %d %s\n", run, b)
			out.Flush()
		}
		a.add(res, len(a.stat.Samples) < *samples && done < uint64(*samples))
		done++
		if done%32 == 0 {
			a.flush(out)
		}
	}
	a.flush(out)
	fmt.Fprintf(out, "DONE %d\n", done)
}
