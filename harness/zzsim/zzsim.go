// Package zzsim is the seam through which the detsim engine owns the two sources of
// nondeterminism on the compile/generate path: Go's map iteration order and the clock.
// The driver rewrites every `range m` over a map into `range zzsim.MapSeq(m, site)` and
// every time.Now/Since into zzsim.Now/Since (overlay copies; /repo is not touched).
//
// With no simulation state installed the functions fall through to the real thing.
package zzsim

import (
	"cmp"
	"fmt"
	"iter"
	"slices"
	"time"
)

// Policy kinds for one site during one generation.
const (
	Ascending = iota
	Descending
	Rotate
	Shuffle
	numPolicies
)

type SitePolicy struct {
	Kind  int
	Param uint64
}

type SiteStat struct {
	Execs      int // executions of the range statement
	Multi      int // executions over >= 2 keys
	Permuted   int // executions whose order differed from the canonical one
	MaxKeys    int
	Signatures map[uint64]bool // distinct (key count, permutation fingerprint)
}

// State is installed by the harness for the duration of one generation.
type State struct {
	Policies   map[string]SitePolicy // by site id; missing = Ascending
	Default    SitePolicy            // for sites not listed (new sites in a changed tree)
	Stats      map[string]*SiteStat
	Epoch      time.Time
	Jumps      []time.Duration // consumed one per clock reading; then 1ms steps
	clockN     int
	now        time.Time
	ClockReads int
}

var cur *State

// Install makes st the active simulation state (nil deactivates).
func Install(st *State) {
	cur = st
	if st != nil {
		st.now = st.Epoch
		st.clockN = 0
		if st.Stats == nil {
			st.Stats = map[string]*SiteStat{}
		}
	}
}

func splitmix(x *uint64) uint64 {
	*x += 0x9e3779b97f4a7c15
	z := *x
	z = (z ^ (z >> 30)) * 0xbf58476d1ce4e5b9
	z = (z ^ (z >> 27)) * 0x94d049bb133111eb
	return z ^ (z >> 31)
}

func sortKeys[K comparable](keys []K) {
	if len(keys) < 2 {
		return
	}
	switch ks := any(keys).(type) {
	case []int:
		slices.Sort(ks)
	case []string:
		slices.Sort(ks)
	case []int32:
		slices.Sort(ks)
	case []int64:
		slices.Sort(ks)
	case []uint32:
		slices.Sort(ks)
	case []uint64:
		slices.Sort(ks)
	case []uint16:
		slices.Sort(ks)
	case []int16:
		slices.Sort(ks)
	default:
		// no natural order: order by printed form (stable for value types; pointer keys
		// would print addresses, which is still a legal order, merely not a canonical one)
		slices.SortStableFunc(keys, func(a, b K) int { return cmp.Compare(fmt.Sprintf("%#v", a), fmt.Sprintf("%#v", b)) })
	}
}

// order returns the permutation of [0,n) for this execution of site.
func (st *State) order(site string, n int) []int {
	idx := make([]int, n)
	for i := range idx {
		idx[i] = i
	}
	s := st.Stats[site]
	if s == nil {
		s = &SiteStat{Signatures: map[uint64]bool{}}
		st.Stats[site] = s
	}
	s.Execs++
	if n > s.MaxKeys {
		s.MaxKeys = n
	}
	if n < 2 {
		return idx
	}
	s.Multi++
	p, ok := st.Policies[site]
	if !ok {
		p = st.Default
	}
	switch p.Kind % numPolicies {
	case Descending:
		slices.Reverse(idx)
	case Rotate:
		r := int(p.Param%uint64(n-1)) + 1
		idx = append(idx[r:], idx[:r]...)
	case Shuffle:
		x := p.Param ^ uint64(s.Execs)*0x9e3779b97f4a7c15
		for i := n - 1; i > 0; i-- {
			j := int(splitmix(&x) % uint64(i+1))
			idx[i], idx[j] = idx[j], idx[i]
		}
	}
	permuted := false
	var fp uint64 = uint64(n)
	for i, v := range idx {
		if v != i {
			permuted = true
		}
		if i < 8 {
			fp = fp*1099511628211 ^ uint64(v)
		}
	}
	if permuted {
		s.Permuted++
		if len(s.Signatures) < 64 {
			s.Signatures[fp] = true
		}
	}
	return idx
}

// MapSeq iterates m in the simulated order. Every order it produces is one the Go
// specification allows for `range m`: each entry present at the time it is reached is
// produced exactly once; entries deleted before being reached are not produced; entries
// added during the loop are skipped.
func MapSeq[M ~map[K]V, K comparable, V any](m M, site string) iter.Seq2[K, V] {
	return func(yield func(K, V) bool) {
		st := cur
		if st == nil {
			for k, v := range m {
				if !yield(k, v) {
					return
				}
			}
			return
		}
		keys := make([]K, 0, len(m))
		for k := range m {
			keys = append(keys, k)
		}
		sortKeys(keys)
		for _, i := range st.order(site, len(keys)) {
			k := keys[i]
			v, ok := m[k]
			if !ok {
				continue
			}
			if !yield(k, v) {
				return
			}
		}
	}
}

// MapKeys / MapValues stand in for maps.Keys / maps.Values.
func MapKeys[M ~map[K]V, K comparable, V any](m M, site string) iter.Seq[K] {
	return func(yield func(K) bool) {
		for k := range MapSeq(m, site) {
			if !yield(k) {
				return
			}
		}
	}
}

func MapValues[M ~map[K]V, K comparable, V any](m M, site string) iter.Seq[V] {
	return func(yield func(V) bool) {
		for _, v := range MapSeq(m, site) {
			if !yield(v) {
				return
			}
		}
	}
}

// Now is the simulated wall clock: it starts at the tape-chosen epoch and every reading
// advances it by the next tape-chosen jump. It never runs backwards (Go's monotonic
// reading never does).
func Now() time.Time {
	st := cur
	if st == nil {
		return time.Now()
	}
	st.ClockReads++
	d := time.Millisecond
	if st.clockN < len(st.Jumps) {
		d = st.Jumps[st.clockN]
	}
	st.clockN++
	st.now = st.now.Add(d)
	return st.now
}

func Since(t time.Time) time.Duration {
	if cur == nil {
		return time.Since(t)
	}
	return Now().Sub(t)
}
