#!/bin/bash
# selftest/confirm_seeded.sh <id> <property> <engine> <incoming-dir> <K> <go-test-pkg> <run-regex> <copy-spec>...
#   copy-spec = <file-in-incoming>:<path-in-tree>
# Confirms a seeded breaking change in a scratch worktree of /repo (HEAD):
#   patch applies -> builds -> the repository's test suite passes -> the demonstration FAILS;
#   patch reverted -> the demonstration PASSES.
# On success files the change as /verif/seeded/<id>/{patch.diff, demo files, confirm.log}.
set -u
id=$1; prop=$2; engine=$3; inc=$4; K=$5; pkg=$6; re=$7; shift 7
export PATH=/opt/veriftools/go1.26.8/bin:$PATH GOFLAGS=-mod=mod GOPROXY=off GOSUMDB=off GOTOOLCHAIN=local
wt=$(mktemp -d /var/tmp/verif-confirm.XXXXXX); rmdir "$wt"
git -C /repo worktree add -q --detach "$wt" HEAD || exit 2
trap 'git -C /repo worktree remove --force "$wt" >/dev/null 2>&1; rm -rf "$wt"' EXIT
out=/verif/seeded/$id; mkdir -p "$out"
log=$out/confirm.log; : > "$log"
say() { echo "$@" | tee -a "$log"; }
copy_demo() { for spec in "$@"; do src=${spec%%:*}; dst=${spec#*:}; mkdir -p "$wt/$(dirname "$dst")"; cp "$inc/$src" "$wt/$dst"; done; }
say "repo HEAD: $(git -C /repo rev-parse --short HEAD)"
cd "$wt"
if ! git apply "$inc/patch$K.diff" 2>>"$log"; then say "RESULT patch does not apply"; exit 1; fi
if ! go build ./... >>"$log" 2>&1; then say "RESULT does not build"; exit 1; fi
say "build with patch: ok"
if go test -vet=off -count=1 ./... >"$wt/.suite.log" 2>&1; then say "suite with patch: PASS"; else say "suite with patch: FAIL"; grep -v "^ok\|no test files" "$wt/.suite.log" | tail -20 >>"$log"; say "RESULT suite fails"; exit 1; fi
copy_demo "$@"
if go test -vet=off -count=1 -run "$re" "$pkg" >"$wt/.demo1.log" 2>&1; then say "demo with patch: PASS (expected FAIL)"; say "RESULT demo does not fail"; exit 1; else say "demo with patch: FAIL (as expected)"; tail -8 "$wt/.demo1.log" >>"$log"; fi
git checkout -q -- . && git clean -fdq
copy_demo "$@"
if go test -vet=off -count=1 -run "$re" "$pkg" >"$wt/.demo2.log" 2>&1; then say "demo without patch: PASS (as expected)"; else say "demo without patch: FAIL (expected PASS)"; tail -8 "$wt/.demo2.log" >>"$log"; say "RESULT demo fails on clean tree"; exit 1; fi
cp "$inc/patch$K.diff" "$out/patch.diff"
for spec in "$@"; do src=${spec%%:*}; cp "$inc/$src" "$out/"; done
cp "$inc/demo$K.md" "$out/demo.md" 2>/dev/null
printf '%s\n' "$@" > "$out/demo_copy_spec.txt"
echo "$pkg -run $re" > "$out/demo_cmd.txt"
say "RESULT confirmed"
