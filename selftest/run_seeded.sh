#!/bin/bash
# selftest/run_seeded.sh [budget] [ids...] — runs the quick check of the owning engine against every
# confirmed seeded change (scratch worktree, never /repo) and records caught/missed in
# /verif/seeded/<id>/check_result.txt
budget=${1:-45}; shift
cd /verif/seeded
ids=("$@"); [ ${#ids[@]} -eq 0 ] && ids=($(ls -d C* 2>/dev/null))
for id in "${ids[@]}"; do
  [ -f "$id/patch.diff" ] || continue
  case $id in C29*) e=cancelsim;; C23*) e=lssim;; C18*) e=detsim;; esac
  out=$(/verif/selftest/try_patch.sh "$id/patch.diff" $e "$budget" 2>&1)
  verdict=$(echo "$out" | grep "^try_patch:" | tail -1)
  { echo "engine=$e budget=${budget}s head=$(git -C /repo rev-parse --short HEAD) date=$(date -u +%FT%TZ)"; echo "$verdict"; echo "$out" | grep -v "^try_patch\|built instrumented\|determinism self" | cut -c1-300 | tail -12; } > "$id/check_result.txt"
  echo "$id: $verdict"
done
