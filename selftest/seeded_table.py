#!/usr/bin/env python3
# prints the markdown table of DESIGN.md §9.6 from seeded/*/meta.json and check_result.txt
import json,glob,os
rows=[]
for p in sorted(glob.glob('/verif/seeded/C*/meta.json')):
    m=json.load(open(p)); d=os.path.dirname(p)
    last='?'
    if os.path.exists(d+'/check_result.txt'):
        l=open(d+'/check_result.txt').read().splitlines()
        last=l[1].replace('try_patch: ','') if len(l)>1 else '?'
    rows.append((m['property'],m.get('wave',0),m['id'],m['breaks'],m['needs_to_manifest'],m['check']['history'],last))
print('| id (property, wave) | the change | needs, to manifest | outcome against the check | last run |')
print('|---|---|---|---|---|')
for prop,wave,id,br,needs,hist,last in rows:
    print('| `%s` (%s, w%d) | %s | %s | %s | %s |'%(id,prop,wave,br.replace('|','\\|'),needs.replace('|','\\|'),hist.replace('|','\\|'),last))
