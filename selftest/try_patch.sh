#!/bin/bash
# selftest/try_patch.sh <patch.diff> <engine> [budget_s] [seed]
# Applies a breaking change to a scratch worktree of /repo (never to /repo itself), optionally
# runs the repository's own test suite there, runs one quick check against it with
# VERIF_REPO=<scratch>, prints the verdict and removes the worktree with its build output.
# Exit: 0 = the check caught the change (exit 1 + VIOLATION), 1 = missed, 2 = could not decide.
set -u
patch=$(readlink -f "$1"); engine=$2; budget=${3:-45}; seed=${4:-1}
export PATH=/opt/veriftools/go1.26.8/bin:$PATH GOFLAGS=-mod=mod GOPROXY=off GOSUMDB=off GOTOOLCHAIN=local
wt=$(mktemp -d /var/tmp/verif-mut.XXXXXX)
rmdir "$wt"
git -C /repo worktree add -q --detach "$wt" HEAD || exit 2
trap 'git -C /repo worktree remove --force "$wt" >/dev/null 2>&1; rm -rf "$wt"' EXIT
if ! git -C "$wt" apply "$patch"; then echo "try_patch: patch does not apply"; exit 2; fi
if [ "${RUN_SUITE:-0}" = 1 ]; then
  (cd "$wt" && go build ./... && go test -vet=off -count=1 ./... 2>&1 | grep -v "^ok\|no test files" | tail -20)
  echo "suite exit: ${PIPESTATUS[0]}"
fi
out=$(mktemp /var/tmp/verif-mut-out.XXXXXX)
# replays and evidence of this trial go to a throw-away copy of the verif dir layout
VERIF_OUT="${KEEP_OUT:-$wt/.verif-out}" VERIF_REPO="$wt" /verif/bin/driver run "$engine" -tier quick -budget "$budget" -seed "$seed" >"$out" 2>&1
rc=$?
grep -v "^    " "$out" | tail -15
rm -f "$out"
case $rc in
  1) echo "try_patch: CAUGHT ($engine)"; exit 0 ;;
  0) echo "try_patch: MISSED ($engine)"; exit 1 ;;
  *) echo "try_patch: cannot decide (exit $rc)"; exit 2 ;;
esac
